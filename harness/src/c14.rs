//! C14 driver: the real limiters (rate_limit::Engine, validation::RateLimiter::check_ip,
//! rate_limit::JoinRateLimiter::check_join_allowed) under random configurations and arrival
//! patterns, single-threaded and from 8 OS threads.  Every call is logged with the tick band
//! [tb, ta] (monotonic clock, relative to the segment start) in which it ran, its outcome and the
//! buckets it draws on.  Oracle: spec/Trace_RateLimit.tla (upper bounds only + time-free isolation).
//!
//! Trusted base of this file: the prefix projections (`keys_join`), the tick conversion
//! (floor before the call, ceil + 1 after it), the ordering of events by tb.
use crate::common::{self, Args, Trace};
use rand::Rng;
use saorsa_core::rate_limit::{Engine, EngineConfig, JoinRateLimiter, JoinRateLimiterConfig};
use saorsa_core::validation::{RateLimitConfig, RateLimiter};
use serde_json::{Value, json};
use std::net::{IpAddr, Ipv4Addr, Ipv6Addr};
use std::sync::Arc;
use std::time::{Duration, Instant};

#[derive(Clone, Copy)]
struct Clock {
    t0: Instant,
    unit_ns: u128,
}
impl Clock {
    fn before(&self) -> i64 {
        (self.t0.elapsed().as_nanos() / self.unit_ns) as i64
    }
    fn after(&self) -> i64 {
        (self.t0.elapsed().as_nanos() / self.unit_ns) as i64 + 2
    }
}

enum Lim {
    Eng(Engine<u32>),
    Ip(RateLimiter),
    Join(JoinRateLimiter),
}

#[derive(Clone)]
enum Target {
    Global,
    Key(u32),
    Ip(IpAddr),
}

fn keys_join(ip: &IpAddr) -> Vec<Value> {
    match ip {
        IpAddr::V6(a) => {
            let o = a.octets();
            vec![json!([1, "g"]), json!([2, format!("64:{}", hex::encode(&o[..8]))]), json!([3, format!("48:{}", hex::encode(&o[..6]))])]
        }
        IpAddr::V4(a) => {
            let o = a.octets();
            vec![json!([1, "g"]), json!([4, format!("24:{}.{}.{}", o[0], o[1], o[2])])]
        }
    }
}

/// one call; returns (ok, keys, by)
fn call(l: &Lim, tg: &Target) -> (bool, Vec<Value>, String) {
    match (l, tg) {
        (Lim::Eng(e), Target::Global) => (e.try_consume_global(), vec![json!([1, "g"])], "global".into()),
        (Lim::Eng(e), Target::Key(k)) => (e.try_consume_key(k), vec![json!([2, format!("k{k}")])], "key".into()),
        (Lim::Ip(r), Target::Ip(ip)) => match r.check_ip(ip) {
            Ok(()) => (true, vec![json!([1, "g"]), json!([2, ip.to_string()])], String::new()),
            Err(e) => {
                let s = e.to_string();
                (false, vec![json!([1, "g"]), json!([2, ip.to_string()])], if s.contains("global") { "global".into() } else { "ip".into() })
            }
        },
        (Lim::Join(j), Target::Ip(ip)) => match j.check_join_allowed(ip) {
            Ok(()) => (true, keys_join(ip), String::new()),
            Err(e) => {
                let s = e.to_string();
                let by = if s.contains("global") { "global" } else if s.contains("/64") { "/64" } else if s.contains("/48") { "/48" } else { "/24" };
                (false, keys_join(ip), by.into())
            }
        },
        _ => (false, vec![], "driver".into()),
    }
}

fn rand_ip(rng: &mut impl Rng, pool: u8) -> IpAddr {
    // small pools so that addresses share /24, /48 and /64 prefixes in every combination
    if rng.gen_bool(0.5) {
        IpAddr::V4(Ipv4Addr::new(10, rng.gen_range(0..2), rng.gen_range(0..pool.min(3)), rng.gen_range(1..=pool)))
    } else {
        let mut o = [0u8; 16];
        o[0] = 0x20;
        o[1] = 0x01;
        o[3] = rng.gen_range(0..2); // /32
        o[5] = rng.gen_range(0..2); // /48
        o[7] = rng.gen_range(0..pool.min(3)); // /64
        o[15] = rng.gen_range(1..=pool); // host
        if rng.gen_bool(0.1) {
            o[8] = rng.r#gen(); // host bits just below the /64 boundary
        }
        IpAddr::V6(Ipv6Addr::from(o))
    }
}

struct Setup {
    lim: Lim,
    api: &'static str,
    lv: Vec<[i64; 3]>,
    names: Vec<&'static str>,
    unit_ns: u128,
    w_ms: u64,
}

fn setup(rng: &mut impl Rng, kind: u64) -> Setup {
    // random small configuration; burst may exceed the window maximum (then the window binds) or be 0
    let w_ms: u64 = [1, 2, 3, 5, 8, 13, 20, 40][rng.gen_range(0..8)];
    let max: u32 = match rng.gen_range(0..6) { 0 => 1, 1 => 2, 2 => 3, 3 => rng.gen_range(4..10), 4 => rng.gen_range(10..30), _ => rng.gen_range(1..6) };
    let burst: u32 = match rng.gen_range(0..8) { 0 => 0, 1 => 1, 2 => max, 3 => 2 * max + 1, 4 => 3 * max + 2, 5 => rng.gen_range(1..=max), _ => rng.gen_range(1..40) };
    let w_us = (w_ms * 1000) as i64;
    match kind {
        0 => Setup {
            lim: Lim::Eng(Engine::new(EngineConfig { window: Duration::from_millis(w_ms), max_requests: max, burst_size: burst })),
            api: "engine", lv: vec![[w_us, max as i64, burst as i64]; 2], names: vec!["global", "key"], unit_ns: 1000, w_ms,
        },
        1 => Setup {
            lim: Lim::Ip(RateLimiter::new(RateLimitConfig { window: Duration::from_millis(w_ms), max_requests: max, burst_size: burst,
                                                            adaptive: rng.gen_bool(0.5), cleanup_interval: Duration::from_secs(300) })),
            api: "check_ip", lv: vec![[w_us, max as i64, burst as i64]; 2], names: vec!["global", "ip"], unit_ns: 1000, w_ms,
        },
        2 => {
            let c = RateLimitConfig::default();
            let lv = [c.window.as_millis() as i64, c.max_requests as i64, c.burst_size as i64];
            Setup { lim: Lim::Ip(RateLimiter::new(c)), api: "check_ip", lv: vec![lv; 2], names: vec!["global", "ip"], unit_ns: 1_000_000, w_ms: 5 }
        }
        3 => {
            let c = JoinRateLimiterConfig::default();
            let lv = vec![[60_000, c.max_global_joins_per_minute as i64, c.global_burst_size as i64],
                          [3_600_000, c.max_joins_per_64_per_hour as i64, c.max_joins_per_64_per_hour as i64],
                          [3_600_000, c.max_joins_per_48_per_hour as i64, c.max_joins_per_48_per_hour as i64],
                          [3_600_000, c.max_joins_per_24_per_hour as i64, c.max_joins_per_24_per_hour as i64]];
            Setup { lim: Lim::Join(JoinRateLimiter::new(c)), api: "join", lv, names: vec!["global", "/64", "/48", "/24"], unit_ns: 1_000_000, w_ms: 5 }
        }
        _ => {
            let c = JoinRateLimiterConfig {
                max_joins_per_64_per_hour: rng.gen_range(0..4),
                max_joins_per_48_per_hour: rng.gen_range(1..8),
                max_joins_per_24_per_hour: rng.gen_range(0..6),
                max_global_joins_per_minute: [5, 60, 600, 6000, 60000][rng.gen_range(0..5)],
                global_burst_size: rng.gen_range(0..30),
            };
            let lv = vec![[60_000, c.max_global_joins_per_minute as i64, c.global_burst_size as i64],
                          [3_600_000, c.max_joins_per_64_per_hour as i64, c.max_joins_per_64_per_hour as i64],
                          [3_600_000, c.max_joins_per_48_per_hour as i64, c.max_joins_per_48_per_hour as i64],
                          [3_600_000, c.max_joins_per_24_per_hour as i64, c.max_joins_per_24_per_hour as i64]];
            Setup { lim: Lim::Join(JoinRateLimiter::new(c)), api: "join", lv, names: vec!["global", "/64", "/48", "/24"], unit_ns: 1_000_000, w_ms: 5 }
        }
    }
}

fn target(rng: &mut impl Rng, s: &Setup, pool: u8, fresh: &mut u32) -> Target {
    match s.lim {
        Lim::Eng(_) => {
            if rng.gen_bool(0.2) {
                Target::Global
            } else if rng.gen_bool(0.1) {
                *fresh += 1;
                Target::Key(1000 + *fresh)
            } else {
                Target::Key(rng.gen_range(0..pool as u32))
            }
        }
        _ => Target::Ip(rand_ip(rng, pool)),
    }
}

fn pause(rng: &mut impl Rng, w_ms: u64) {
    match rng.gen_range(0..100) {
        0..=79 => {}
        80..=91 => {
            let t = Instant::now();
            let d = Duration::from_micros(rng.gen_range(20..(w_ms * 300).max(40)));
            while t.elapsed() < d {
                std::hint::spin_loop();
            }
        }
        92..=97 => std::thread::sleep(Duration::from_micros(rng.gen_range(100..w_ms * 1100))),
        _ => std::thread::sleep(Duration::from_micros(w_ms * 1000 + rng.gen_range(0..w_ms * 1500))),
    }
}

pub fn drive(a: &Args) -> i32 {
    let out = a.str("out", "/dev/stdout");
    let segments = a.num("segments", 40);
    let ops = a.num("ops", 150);
    let threads = a.num("threads", 8) as usize;
    let mut t = Trace::create(&out);
    let mut rng = common::rng(14);
    common::quiet_panics();
    for seg in 0..segments {
        let kind = [0, 1, 4, 1, 0, 4, 2, 3][(seg % 8) as usize];
        let s = setup(&mut rng, kind);
        let conc = seg % 3 == 2;
        let pool: u8 = rng.gen_range(1..6);
        let clock = Clock { t0: Instant::now(), unit_ns: s.unit_ns };
        t.ev(json!({"ev":"Reset","api":s.api,"seq":!conc,"lv":s.lv,"names":s.names,"unit_ns":s.unit_ns as u64,"threads": if conc { threads } else { 1 }}));
        if !conc {
            let mut fresh = 0u32;
            for _ in 0..ops {
                let tg = target(&mut rng, &s, pool, &mut fresh);
                let tb = clock.before();
                let r = common::catch(std::panic::AssertUnwindSafe(|| call(&s.lim, &tg)));
                let ta = clock.after();
                match r {
                    Ok((ok, keys, by)) => t.ev(json!({"ev":"Req","tb":tb,"ta":ta,"ok":ok,"keys":keys,"by":by})),
                    Err(m) => t.ev(json!({"ev":"Panic","via":s.api,"msg":m})),
                }
                pause(&mut rng, s.w_ms);
            }
        } else {
            // several OS threads hammer one limiter; per-thread logs are merged by tb afterwards
            let w_ms = s.w_ms;
            let api = s.api;
            let shared = Arc::new(s);
            let per = (ops as usize * 2 / threads).max(10);
            let mut all: Vec<(i64, Value)> = Vec::new();
            // first-touch bursts: all threads, released together by a barrier, present the SAME never-seen key
            let bursts = 300usize;
            // spin barrier: threads leave it within nanoseconds of each other (a futex barrier wakes them one by one)
            let barrier = Arc::new(std::sync::atomic::AtomicUsize::new(0));
            let is_eng = matches!(shared.lim, Lim::Eng(_));
            std::thread::scope(|sc| {
                let mut hs = Vec::new();
                for ti in 0..threads {
                    let sh = shared.clone();
                    let bar = barrier.clone();
                    let mut r = common::rng(5000 + seg * 64 + ti as u64);
                    hs.push(sc.spawn(move || {
                        let mut log: Vec<(i64, Value)> = Vec::new();
                        for b in 0..bursts {
                            let tg = if is_eng {
                                Target::Key(2_000_000 + b as u32)
                            } else if b % 2 == 0 {
                                Target::Ip(IpAddr::V6(std::net::Ipv6Addr::new(0x2001, 0xdb8, (seg % 60000) as u16, b as u16, 0, 0, 0, 1)))
                            } else {
                                Target::Ip(IpAddr::V4(std::net::Ipv4Addr::new(10, (seg % 250) as u8, b as u8, 1)))
                            };
                            bar.fetch_add(1, std::sync::atomic::Ordering::SeqCst);
                            while bar.load(std::sync::atomic::Ordering::SeqCst) < threads * (b + 1) {
                                std::hint::spin_loop();
                            }
                            let tb = clock.before();
                            let res = common::catch(std::panic::AssertUnwindSafe(|| call(&sh.lim, &tg)));
                            let ta = clock.after();
                            match res {
                                Ok((ok, keys, by)) => log.push((tb, json!({"ev":"Req","tb":tb,"ta":ta,"ok":ok,"keys":keys,"by":by,"th":ti}))),
                                Err(m) => log.push((tb, json!({"ev":"Panic","via":api,"msg":m}))),
                            }
                        }
                        let mut fresh = 100_000 * (ti as u32 + 1);
                        for _ in 0..per {
                            let tg = target(&mut r, &sh, pool, &mut fresh);
                            let tb = clock.before();
                            let res = common::catch(std::panic::AssertUnwindSafe(|| call(&sh.lim, &tg)));
                            let ta = clock.after();
                            match res {
                                Ok((ok, keys, by)) => log.push((tb, json!({"ev":"Req","tb":tb,"ta":ta,"ok":ok,"keys":keys,"by":by,"th":ti}))),
                                Err(m) => log.push((tb, json!({"ev":"Panic","via":api,"msg":m}))),
                            }
                            pause(&mut r, w_ms);
                        }
                        log
                    }));
                }
                for h in hs {
                    if let Ok(mut l) = h.join() {
                        all.append(&mut l);
                    }
                }
            });
            all.sort_by_key(|e| e.0);
            for (_, v) in all {
                t.ev(v);
            }
        }
    }
    let n = t.finish();
    eprintln!("c14 drive: {n} events");
    0
}
