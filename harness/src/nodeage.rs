//! Node age verification driver (specification growth module NodeAge): seeded random sequences of the public
//! operations of a real `NodeAgeVerifier` (register_node, mark_departed, verify_for_operation, the three
//! eligibility lists, get_age_stats, cleanup_old_records) plus the pure parts of the module
//! (`NodeAgeCategory`, `NodeAgeConfig`, `NodeAgeRecord` on back-dated records).
//! Oracle: spec/Trace_NodeAge.tla with the functions of spec/NodeAgeRules.tla.
//!
//! Time: the component reads `SystemTime::now()` and only ever looks at whole elapsed seconds. The verifier
//! segments therefore run in real time with configurations whose thresholds are 0..4 seconds and sleep between
//! operations; many segments run concurrently (they mostly sleep), each on its own verifier. Every step logs
//! the clock band `[t0, t1]` (microseconds since the segment's epoch, read from `SystemTime` immediately
//! before and after the call) and the projected state before and after: for every pool token that
//! `get_record` knows `[token, first_seen us, last_seen us, is_active, rejoin_count, total_uptime_secs]`.
//! The acceptor accepts any outcome that is right for SOME instant of the band (per clock read).
//! The literal category thresholds (1 h / 24 h / 7 d) are reached with back-dated `NodeAgeRecord`s (public
//! fields) in the "pure" segments; those steps log the elapsed band in milliseconds.
//!
//! Segment 0 and 1 are fixed scripts (no randomness, no expected values): the operation sequences behind the
//! observations reported for this module. Trusted base (projections only): tokens are positions in the
//! segment's node pool; f64 are logged as round(1e6 x) (multipliers) / round(1e3 x) (config bonuses); the
//! failure reason is classified by its leading words and its numbers are extracted.
use crate::common::{self, Args, Trace};
use rand::Rng;
use saorsa_core::dht::node_age_verifier::{
    AgeVerificationResult, NodeAgeCategory, NodeAgeConfig, NodeAgeRecord, NodeAgeVerifier, OperationType,
};
use saorsa_core::peer_record::UserId as NodeId;
use serde_json::{Map, Value, json};
use std::panic::AssertUnwindSafe;
use std::time::{Duration, SystemTime};

const CATS: [NodeAgeCategory; 4] = [NodeAgeCategory::New, NodeAgeCategory::Young, NodeAgeCategory::Established, NodeAgeCategory::Veteran];
const OPS: [OperationType; 4] = [OperationType::BasicRead, OperationType::BasicWrite, OperationType::Replication, OperationType::CriticalOperation];
const NTOK: usize = 5;

fn cat_name(c: NodeAgeCategory) -> &'static str {
    match c {
        NodeAgeCategory::New => "New",
        NodeAgeCategory::Young => "Young",
        NodeAgeCategory::Established => "Established",
        NodeAgeCategory::Veteran => "Veteran",
    }
}

fn op_name(o: OperationType) -> &'static str {
    match o {
        OperationType::BasicRead => "BasicRead",
        OperationType::BasicWrite => "BasicWrite",
        OperationType::Replication => "Replication",
        OperationType::CriticalOperation => "CriticalOperation",
    }
}

fn small(x: u64) -> i64 {
    x.min(2_000_000_000) as i64
}

/// Signed distance `t - epoch` in the given unit (nanoseconds per tick).
fn since(epoch: SystemTime, t: SystemTime, unit_ns: u128) -> i64 {
    match t.duration_since(epoch) {
        Ok(d) => (d.as_nanos() / unit_ns).min(2_000_000_000) as i64,
        Err(e) => -((e.duration().as_nanos() / unit_ns).min(2_000_000_000) as i64),
    }
}

fn us(epoch: SystemTime, t: SystemTime) -> i64 {
    since(epoch, t, 1_000)
}

fn cfg_json(c: &NodeAgeConfig) -> Value {
    json!({"repl": small(c.min_replication_age_secs), "crit": small(c.min_critical_ops_age_secs), "vet": small(c.veteran_age_secs),
           "enforce": c.enforce_age_requirements, "bpd": (c.trust_bonus_per_day * 1000.0).round() as i64,
           "maxb": (c.max_age_trust_bonus * 1000.0).round() as i64})
}

fn rec_json(r: &NodeAgeRecord, epoch: SystemTime) -> Value {
    json!([us(epoch, r.first_seen), us(epoch, r.last_seen), r.is_active, r.rejoin_count, small(r.total_uptime_secs)])
}

fn fresh_id(rng: &mut impl Rng) -> NodeId {
    let mut b = [0u8; 32];
    rng.fill(&mut b);
    NodeId { hash: b }
}

struct Seg {
    v: NodeAgeVerifier,
    pool: Vec<NodeId>,
    epoch: SystemTime,
}

fn project(s: &Seg) -> Value {
    let mut out = Vec::new();
    for (i, id) in s.pool.iter().enumerate() {
        if let Some(r) = s.v.get_record(id) {
            out.push(json!([i + 1, us(s.epoch, r.first_seen), us(s.epoch, r.last_seen), r.is_active, r.rejoin_count, small(r.total_uptime_secs)]));
        }
    }
    Value::Array(out)
}

fn tokens(s: &Seg, ids: &[NodeId]) -> (Vec<usize>, bool) {
    let mut t: Vec<usize> = ids.iter().map(|id| s.pool.iter().position(|p| p == id).map(|i| i + 1).unwrap_or(0)).collect();
    t.sort();
    let dup = t.windows(2).any(|w| w[0] == w[1]) || t.contains(&0);
    (t, dup)
}

fn result_json(r: &AgeVerificationResult) -> Value {
    let (kind, rs_age, rs_min, rs_op) = match &r.failure_reason {
        None => ("none", -1i64, -1i64, String::new()),
        Some(s) if s == "Unknown node" => ("unknown", -1, -1, String::new()),
        Some(s) if s.starts_with("Node age ") => {
            let nums: Vec<i64> = s.split_whitespace().filter_map(|w| w.parse::<u64>().ok()).map(small).collect();
            ("age", nums.first().copied().unwrap_or(-1), nums.get(1).copied().unwrap_or(-1), s.split_whitespace().last().unwrap_or("").to_string())
        }
        Some(_) => ("other", -1, -1, String::new()),
    };
    json!({"passes": r.passes, "cat": cat_name(r.category), "age": small(r.age_secs), "tm": (r.trust_multiplier * 1e6).round() as i64,
           "canrep": r.can_replicate, "cancrit": r.can_participate_critical, "reason": kind, "rs_age": rs_age, "rs_min": rs_min, "rs_op": rs_op})
}

#[derive(Clone, Debug)]
enum Op {
    Sleep(u64),
    Register(usize),
    Depart(usize),
    Verify(usize, usize),
    Repl,
    Crit,
    Vet,
    Stats,
    /// retention in microseconds, -1 = Duration::MAX
    Cleanup(i64),
}

/// One operation on the real verifier, bracketed by two clock reads. No expected values.
fn apply(s: &Seg, op: &Op) -> Map<String, Value> {
    let mut e = Map::new();
    let mut put = |k: &str, v: Value| {
        e.insert(k.to_string(), v);
    };
    let (t0, t1);
    match op {
        Op::Sleep(_) => unreachable!(),
        Op::Register(i) => {
            let id = s.pool[*i].clone();
            t0 = SystemTime::now();
            let r = s.v.register_node(id);
            t1 = SystemTime::now();
            put("op", json!("Register"));
            put("n", json!(i + 1));
            put("ret", rec_json(&r, s.epoch));
        }
        Op::Depart(i) => {
            t0 = SystemTime::now();
            s.v.mark_departed(&s.pool[*i]);
            t1 = SystemTime::now();
            put("op", json!("Depart"));
            put("n", json!(i + 1));
        }
        Op::Verify(i, o) => {
            t0 = SystemTime::now();
            let r = s.v.verify_for_operation(&s.pool[*i], OPS[*o]);
            t1 = SystemTime::now();
            put("op", json!("Verify"));
            put("n", json!(i + 1));
            put("opn", json!(op_name(OPS[*o])));
            put("res", result_json(&r));
        }
        Op::Repl | Op::Crit | Op::Vet => {
            t0 = SystemTime::now();
            let l = match op {
                Op::Repl => s.v.get_replication_eligible_nodes(),
                Op::Crit => s.v.get_critical_ops_eligible_nodes(),
                _ => s.v.get_veteran_nodes(),
            };
            t1 = SystemTime::now();
            let (t, dup) = tokens(s, &l);
            put("op", json!(match op {
                Op::Repl => "ReplList",
                Op::Crit => "CritList",
                _ => "VetList",
            }));
            put("list", json!(t));
            put("dup", json!(dup));
        }
        Op::Stats => {
            t0 = SystemTime::now();
            let x = s.v.get_age_stats();
            t1 = SystemTime::now();
            put("op", json!("Stats"));
            put("res", json!({"total": x.total_nodes, "active": x.active_nodes, "new": x.new_nodes, "young": x.young_nodes,
                               "est": x.established_nodes, "vet": x.veteran_nodes, "avg": small(x.average_age_secs)}));
        }
        Op::Cleanup(r) => {
            let d = if *r < 0 { Duration::MAX } else { Duration::from_micros(*r as u64) };
            t0 = SystemTime::now();
            let res = common::catch(AssertUnwindSafe(|| s.v.cleanup_old_records(d)));
            t1 = SystemTime::now();
            put("op", json!("Cleanup"));
            put("r", json!(r));
            put("panic", json!(res.is_err()));
            if let Err(m) = res {
                put("msg", json!(m));
            }
        }
    }
    put("t0", json!(us(s.epoch, t0)));
    put("t1", json!(us(s.epoch, t1)));
    e
}

fn step(s: &Seg, op: &Op, out: &mut Vec<Value>) -> bool {
    if let Op::Sleep(ms) = op {
        std::thread::sleep(Duration::from_millis(*ms));
        return true;
    }
    let pre = project(s);
    match common::catch(AssertUnwindSafe(|| apply(s, op))) {
        Ok(mut e) => {
            e.insert("ev".to_string(), json!("Step"));
            e.insert("pre".to_string(), pre);
            e.insert("post".to_string(), project(s));
            out.push(Value::Object(e));
            true
        }
        Err(msg) => {
            out.push(json!({"ev":"Panic","op":format!("{op:?}"),"msg":msg}));
            false
        }
    }
}

fn custom(repl: u64, crit: u64, vet: u64, enforce: bool, bpd: f64, maxb: f64) -> NodeAgeConfig {
    NodeAgeConfig {
        min_replication_age_secs: repl,
        min_critical_ops_age_secs: crit,
        enforce_age_requirements: enforce,
        trust_bonus_per_day: bpd,
        max_age_trust_bonus: maxb,
        veteran_age_secs: vet,
    }
}

/// Start a verifier segment: Reset event plus one `Ctor` step (the configuration the verifier reports).
fn open(seg: u64, ctor: &str, arg: Option<NodeAgeConfig>, rng: &mut impl Rng, out: &mut Vec<Value>) -> Seg {
    let v = match (ctor, &arg) {
        ("new", _) => NodeAgeVerifier::new(),
        ("default", _) => NodeAgeVerifier::default(),
        ("testnet", _) => NodeAgeVerifier::with_config(NodeAgeConfig::testnet()),
        ("permissive", _) => NodeAgeVerifier::with_config(NodeAgeConfig::permissive()),
        (_, Some(c)) => NodeAgeVerifier::with_config(c.clone()),
        _ => NodeAgeVerifier::new(),
    };
    let pool: Vec<NodeId> = (0..NTOK).map(|_| fresh_id(rng)).collect();
    let s = Seg { v, pool, epoch: SystemTime::now() };
    out.push(json!({"ev":"Reset","seg":seg,"kind":"verifier","ctor":ctor,"cfg":cfg_json(s.v.config())}));
    let argj = arg.as_ref().map(cfg_json).unwrap_or(json!(0));
    out.push(json!({"ev":"Step","op":"Ctor","ctor":ctor,"arg":argj,"cfg":cfg_json(s.v.config()),"pre":project(&s)}));
    s
}

/// Script 1: update_seen shortens the recorded uptime; a departed node still passes verification but is in no list;
/// cleanup measures retention from the last registration; the forgotten node comes back brand new; Duration::MAX.
fn script_a(seg: u64, rng: &mut impl Rng) -> Vec<Value> {
    let mut out = Vec::new();
    let s = open(seg, "custom", Some(custom(1, 2, 3, true, 864.0, 0.025)), rng, &mut out);
    let ops = [
        Op::Register(0), Op::Register(1), Op::Verify(0, 2), Op::Sleep(1100), Op::Register(0), Op::Verify(0, 2), Op::Verify(0, 3), Op::Repl,
        Op::Sleep(1100), Op::Verify(0, 3), Op::Crit, Op::Depart(0), Op::Depart(0), Op::Verify(0, 3), Op::Crit, Op::Repl, Op::Stats,
        Op::Cleanup(5_000_000), Op::Cleanup(1_000_000), Op::Verify(0, 0), Op::Register(0), Op::Verify(0, 2), Op::Stats,
        Op::Depart(1), Op::Sleep(1100), Op::Register(1), Op::Verify(1, 3), Op::Vet, Op::Depart(1), Op::Cleanup(-1), Op::Cleanup(0), Op::Stats,
        Op::Verify(4, 0), Op::Depart(4),
    ];
    for op in ops.iter() {
        if !step(&s, op, &mut out) {
            break;
        }
    }
    out
}

/// Script 2: the testnet configuration ("instant veteran status"): passes and lists versus category and statistics;
/// unknown nodes; a configuration that is_relaxed() but still gates critical operations.
fn script_b(seg: u64, rng: &mut impl Rng) -> Vec<Value> {
    let mut out = Vec::new();
    let s = open(seg, "testnet", None, rng, &mut out);
    for op in [Op::Verify(3, 2), Op::Register(0), Op::Verify(0, 2), Op::Verify(0, 3), Op::Vet, Op::Repl, Op::Crit, Op::Stats, Op::Depart(0), Op::Vet, Op::Verify(0, 3)].iter() {
        if !step(&s, op, &mut out) {
            return out;
        }
    }
    let c = custom(0, 2, 3, true, 0.05, 0.3);
    out.push(json!({"ev":"Step","op":"Cfg","ctor":"custom","cfg":cfg_json(&c),"relaxed":c.is_relaxed()}));
    let s = open(seg, "custom", Some(c), rng, &mut out);
    for op in [Op::Register(0), Op::Verify(0, 2), Op::Verify(0, 3), Op::Repl, Op::Crit, Op::Verify(2, 0)].iter() {
        if !step(&s, op, &mut out) {
            break;
        }
    }
    out
}

fn pick(rng: &mut impl Rng) -> usize {
    [0usize, 0, 0, 1, 1, 1, 2, 2, 3, 4][rng.gen_range(0..10)]
}

/// Mostly a token of `pref` (if there is one), sometimes any token.
fn prefer(rng: &mut impl Rng, pref: &[usize]) -> usize {
    if !pref.is_empty() && rng.gen_range(0..5) != 0 { pref[rng.gen_range(0..pref.len())] } else { pick(rng) }
}

fn random_segment(seg: u64, ops: u64, rng: &mut impl Rng) -> Vec<Value> {
    let mut out = Vec::new();
    let (ctor, arg) = match rng.gen_range(0..20u32) {
        0 => ("new", None),
        1 => ("default", None),
        2 | 3 => ("testnet", None),
        4 => ("permissive", None),
        _ => {
            let (bpd, maxb) = [(0.05, 0.3), (864.0, 0.025), (864.0, 0.3), (0.0, 0.0), (86.4, 0.002)][rng.gen_range(0..5)];
            ("custom", Some(custom(rng.gen_range(0..=2), rng.gen_range(0..=3), [0u64, 1, 2, 3, 4, 4000][rng.gen_range(0..6)], rng.gen_range(0..5) != 0, bpd, maxb)))
        }
    };
    let s = open(seg, ctor, arg, rng, &mut out);
    for _ in 0..ops {
        // what the verifier knows right now steers the choice of tokens (projection, not expectation)
        let recs: Vec<Option<NodeAgeRecord>> = s.pool.iter().map(|id| s.v.get_record(id)).collect();
        let known: Vec<usize> = (0..NTOK).filter(|i| recs[*i].is_some()).collect();
        let active: Vec<usize> = (0..NTOK).filter(|i| recs[*i].as_ref().map(|r| r.is_active).unwrap_or(false)).collect();
        let departed: Vec<usize> = (0..NTOK).filter(|i| recs[*i].as_ref().map(|r| !r.is_active).unwrap_or(false)).collect();
        match rng.gen_range(0..100u32) {
            0..=44 => {}
            45..=89 => {
                step(&s, &Op::Sleep([30u64, 120, 250, 400, 700, 1050][rng.gen_range(0..6)]), &mut out);
            }
            _ => {
                // aim at the instant a known record turns one second older: the next call lands on or around the edge
                if !known.is_empty() {
                    let k = known[rng.gen_range(0..known.len())];
                    if let Some(Ok(el)) = recs[k].as_ref().map(|r| r.first_seen.elapsed()) {
                        let left = 1_000_000_000u64 - el.subsec_nanos() as u64;
                        let lead = [0u64, 40_000, 70_000, 100_000, 150_000][rng.gen_range(0..5)];
                        std::thread::sleep(Duration::from_nanos(left.saturating_sub(lead)));
                    }
                }
            }
        }
        let op = match rng.gen_range(0..100u32) {
            0..=21 => Op::Register(if rng.gen_range(0..10) < 4 { prefer(rng, &departed) } else { pick(rng) }),
            22..=33 => Op::Depart(prefer(rng, &active)),
            34..=55 => Op::Verify(prefer(rng, &known), rng.gen_range(0..4)),
            56..=63 => Op::Repl,
            64..=71 => Op::Crit,
            72..=77 => Op::Vet,
            78..=86 => Op::Stats,
            _ => Op::Cleanup([0i64, 300_000, 1_000_000, 1_000_000, 2_000_000, 2_000_000, 4_000_000, -1][rng.gen_range(0..8)]),
        };
        if !step(&s, &op, &mut out) {
            break;
        }
    }
    out
}

/// Elapsed time of `t` in signed milliseconds (negative: `t` lies in the future).
fn elapsed_ms(t: SystemTime) -> i64 {
    since(t, SystemTime::now(), 1_000_000)
}

fn backdate(now: SystemTime, ms: i64) -> SystemTime {
    if ms >= 0 { now - Duration::from_millis(ms as u64) } else { now + Duration::from_millis((-ms) as u64) }
}

fn flags(r: &NodeAgeRecord) -> Value {
    json!([r.is_active, r.rejoin_count, small(r.total_uptime_secs)])
}

/// The pure parts: category functions, configuration constructors, record methods on back-dated records.
fn pure_segment(seg: u64, ops: u64, rng: &mut impl Rng) -> Vec<Value> {
    let mut out = vec![json!({"ev":"Reset","seg":seg,"kind":"pure"})];
    for c in CATS.iter() {
        out.push(json!({"ev":"Step","op":"CatFns","cat":cat_name(*c),"tm":(c.trust_multiplier() * 1e6).round() as i64,
                        "canrep":c.can_replicate(),"cancrit":c.can_participate_in_critical_ops(),"minage":small(c.min_age_secs())}));
    }
    for (name, c) in [("default", NodeAgeConfig::default()), ("testnet", NodeAgeConfig::testnet()), ("permissive", NodeAgeConfig::permissive())] {
        out.push(json!({"ev":"Step","op":"Cfg","ctor":name,"cfg":cfg_json(&c),"relaxed":c.is_relaxed()}));
    }
    const EDGES: [i64; 4] = [0, 3_600_000, 86_400_000, 604_800_000];
    for _ in 0..ops {
        let r = common::catch(AssertUnwindSafe(|| -> Value {
            match rng.gen_range(0..10u32) {
                0 => {
                    let c = custom([0u64, 1, 3600][rng.gen_range(0..3)], [0u64, 5, 86400][rng.gen_range(0..3)], [0u64, 7, 604800][rng.gen_range(0..3)],
                                   rng.gen_bool(0.6), 0.05, 0.3);
                    json!({"ev":"Step","op":"Cfg","ctor":"custom","cfg":cfg_json(&c),"relaxed":c.is_relaxed()})
                }
                1 => {
                    let t0 = SystemTime::now();
                    let r = if rng.gen_bool(0.5) { NodeAgeRecord::new() } else { NodeAgeRecord::default() };
                    let t1 = SystemTime::now();
                    json!({"ev":"Step","op":"RecNew","rec":flags(&r),"same":r.first_seen == r.last_seen,"df":us(t0, r.first_seen),"dt":us(t0, t1),
                           "age":small(r.age_secs()),"cat":cat_name(r.category())})
                }
                2..=5 => {
                    // ages around the literal thresholds (and in the future)
                    let a = match rng.gen_range(0..8u32) {
                        0 => -rng.gen_range(1..100_000i64),
                        1 => rng.gen_range(0..700_000_000i64),
                        _ => EDGES[rng.gen_range(0..4)] + [-1500i64, -600, -40, 0, 40, 600, 1500, 60_000][rng.gen_range(0..8)],
                    };
                    let now = SystemTime::now();
                    let first = backdate(now, a);
                    let r = NodeAgeRecord { first_seen: first, last_seen: first, is_active: true, rejoin_count: 0, total_uptime_secs: 0 };
                    let lo = elapsed_ms(first);
                    let age = r.age_secs();
                    let cat = r.category();
                    let hi = elapsed_ms(first);
                    json!({"ev":"Step","op":"RecCat","lo":lo,"hi":hi,"age":small(age),"cat":cat_name(cat)})
                }
                _ => {
                    let l = [-5000i64, 0, 400, 999, 1000, 1500, 2600, 59_900, 3_600_500, 90_000_300][rng.gen_range(0..10)];
                    let now = SystemTime::now();
                    let mut r = NodeAgeRecord {
                        first_seen: backdate(now, l.max(0) + rng.gen_range(0..5000i64)),
                        last_seen: backdate(now, l),
                        is_active: rng.gen_bool(0.6),
                        rejoin_count: rng.gen_range(0..4),
                        total_uptime_secs: rng.gen_range(0..1000),
                    };
                    let (first0, last0, pre) = (r.first_seen, r.last_seen, flags(&r));
                    let which = ["RecDepart", "RecDepart", "RecSeen", "RecRejoin"][rng.gen_range(0..4)];
                    let lo = elapsed_ms(last0);
                    let t0 = SystemTime::now();
                    match which {
                        "RecDepart" => r.mark_departed(),
                        "RecSeen" => r.update_seen(),
                        _ => r.record_rejoin(),
                    }
                    let t1 = SystemTime::now();
                    let hi = elapsed_ms(last0);
                    json!({"ev":"Step","op":which,"pre":pre,"post":flags(&r),"lo":lo,"hi":hi,"firstkept":r.first_seen == first0,"lastkept":r.last_seen == last0,
                           "dl":us(t0, r.last_seen),"dt":us(t0, t1)})
                }
            }
        }));
        match r {
            Ok(v) => out.push(v),
            Err(msg) => {
                out.push(json!({"ev":"Panic","op":"pure","msg":msg}));
                break;
            }
        }
    }
    out
}

pub fn drive(a: &Args) -> i32 {
    let out = a.str("out", "/dev/stdout");
    let segments = a.num("segments", 96);
    let ops = a.num("ops", 24);
    let par = a.num("par", 48).max(1) as usize;
    let mut t = Trace::create(&out);
    common::quiet_panics();
    let mut panics = 0u64;
    let segs: Vec<u64> = (0..segments).collect();
    for batch in segs.chunks(par) {
        // the segments of a batch run concurrently: they spend their time sleeping
        let results: Vec<Vec<Value>> = std::thread::scope(|sc| {
            let hs: Vec<_> = batch
                .iter()
                .map(|&seg| {
                    sc.spawn(move || {
                        let mut rng = common::rng(5000 + seg);
                        match seg {
                            0 => script_a(seg, &mut rng),
                            1 => script_b(seg, &mut rng),
                            _ if seg % 8 == 7 => pure_segment(seg, ops * 4, &mut rng),
                            _ => random_segment(seg, ops, &mut rng),
                        }
                    })
                })
                .collect();
            hs.into_iter().map(|h| h.join().unwrap_or_else(|e| std::panic::resume_unwind(e))).collect()
        });
        for evs in results {
            for e in evs {
                if e.get("ev").and_then(|x| x.as_str()) == Some("Panic") {
                    panics += 1;
                }
                t.ev(e);
            }
        }
    }
    let n = t.finish();
    eprintln!("nodeage drive: {n} events, {panics} panics");
    0
}
