//! C16 driver. Three kinds of segments, all on the real code:
//!  * "evict":  random success / failure / trust-update / mark / forget histories on
//!              `EvictionManager`; after every step the candidate list and per-peer answers are logged;
//!  * "select": `TrustAwarePeerSelector` (generic over a harness `TrustProvider` that returns the
//!              logged value) on candidate lists whose ids are B-bit model ids embedded at chosen bit
//!              positions of the 256-bit id (families: leading bytes, middle, bytes 15..31, last byte,
//!              spread), so XOR order of the real ids equals XOR order of the logged model ids;
//!  * "engine": join / add / fail / evict histories on `DhtCoreEngine` with closest-node answers
//!              and storage targets: trust selection disabled, and (every other segment) enabled with a real
//!              `EigenTrustEngine` as the provider - the trust of every id as the provider reports it is logged
//!              as a dense rank (order-preserving projection of the f64 values, the threshold included).
//! The oracle is spec/Trace_Sideline.tla. Trusted base: the id embedding (decode re-checked by
//! re-embedding), peer-index bookkeeping, `t as f64 / 1000.0` construction of trust values.
use crate::common::{self, Args, Embed, Trace};
use rand::seq::SliceRandom;
use rand::Rng;
use saorsa_core::adaptive::{NodeId as AdaptiveNodeId, TrustProvider};
use saorsa_core::dht::core_engine::{DhtCoreEngine, DhtKey, NodeCapacity, NodeId, NodeInfo};
use saorsa_core::dht::routing_maintenance::close_group_validator::CloseGroupValidationResult;
use saorsa_core::dht::routing_maintenance::{EvictionManager, EvictionReason, MaintenanceConfig};
use saorsa_core::dht::trust_peer_selector::{TrustAwarePeerSelector, TrustSelectionConfig};
use serde_json::{Value, json};
use std::collections::HashMap;
use std::panic::AssertUnwindSafe;
use std::sync::Arc;
use std::time::SystemTime;

// ------------------------------------------------------------------ eviction

/// trust value of the trace: (kind, per-mille)
#[derive(Clone, Copy)]
enum Tv {
    Val(i64),
    Nan,
}
impl Tv {
    fn f(self) -> f64 {
        match self {
            Tv::Val(v) => v as f64 / 1000.0,
            Tv::Nan => f64::NAN,
        }
    }
    fn j(self) -> Value {
        match self {
            Tv::Val(v) => json!({"k":"val","v":v}),
            Tv::Nan => json!({"k":"nan","v":0}),
        }
    }
}

fn reason_json(r: &Option<EvictionReason>) -> Value {
    match r {
        None => json!({"k":"","n":0}),
        Some(EvictionReason::ConsecutiveFailures(n)) => json!({"k":"ConsecutiveFailures","n":n}),
        Some(EvictionReason::LowTrust(_)) => json!({"k":"LowTrust","n":0}),
        Some(EvictionReason::CloseGroupRejection) => json!({"k":"CloseGroupRejection","n":0}),
        Some(EvictionReason::Stale) => json!({"k":"Stale","n":0}),
    }
}

fn rand_tv(rng: &mut impl Rng, min_trust: i64) -> Tv {
    match rng.gen_range(0..12) {
        0 => Tv::Nan,
        1 => Tv::Val(-500),
        2 => Tv::Val(1500),
        3 => Tv::Val(min_trust),
        4 => Tv::Val(min_trust - 1),
        5 => Tv::Val(min_trust + 1),
        6 => Tv::Val(0),
        7 => Tv::Val(1000),
        _ => Tv::Val(rng.gen_range(0..=1000)),
    }
}

fn evict_segment(t: &mut Trace, rng: &mut impl Rng, ops: u64) {
    let max_fail: u32 = rng.gen_range(1..=5);
    let min_trust: i64 = [0, 150, 150, 500, 1000, 1][rng.gen_range(0..6)];
    let npeers = rng.gen_range(1..=8usize);
    let cfg = MaintenanceConfig { max_consecutive_failures: max_fail, min_trust_threshold: min_trust as f64 / 1000.0, ..Default::default() };
    let peers: Vec<NodeId> = (0..npeers).map(|_| NodeId::random()).collect();
    let index: HashMap<NodeId, usize> = peers.iter().enumerate().map(|(i, p)| (p.clone(), i + 1)).collect();
    t.ev(json!({"ev":"Reset","kind":"evict","maxFail":max_fail,"minTrust":min_trust,"npeers":npeers}));
    let mut m = if rng.gen_bool(0.4) {
        let mut pre = HashMap::new();
        for (i, p) in peers.iter().enumerate() {
            if rng.gen_bool(0.5) {
                let tv = rand_tv(rng, min_trust);
                pre.insert(p.clone(), tv.f());
                t.ev(json!({"ev":"Trust","p":i+1,"t":tv.j(),"via":"with_trust"}));
            }
        }
        EvictionManager::with_trust(cfg, pre)
    } else {
        EvictionManager::new(cfg)
    };
    for _ in 0..ops {
        let i = rng.gen_range(0..npeers);
        let p = &peers[i];
        let r = common::catch(AssertUnwindSafe(|| match rng.gen_range(0..14) {
            0..=4 => {
                m.record_failure(p);
                json!({"ev":"Fail","p":i+1})
            }
            5 | 6 => {
                m.record_success(p);
                json!({"ev":"Succ","p":i+1})
            }
            7..=9 => {
                let tv = rand_tv(rng, min_trust);
                m.update_trust_score(p, tv.f());
                json!({"ev":"Trust","p":i+1,"t":tv.j(),"via":"update_trust_score"})
            }
            10 | 11 => {
                let reason = match rng.gen_range(0..4) {
                    0 => EvictionReason::Stale,
                    1 => EvictionReason::CloseGroupRejection,
                    2 => EvictionReason::LowTrust("0.0100".into()),
                    _ => EvictionReason::ConsecutiveFailures(rng.gen_range(0..9)),
                };
                let j = reason_json(&Some(reason.clone()));
                m.record_eviction(p, reason);
                json!({"ev":"Mark","p":i+1,"k":j["k"],"n":j["n"]})
            }
            _ => {
                m.remove_node(p);
                json!({"ev":"Forget","p":i+1})
            }
        }));
        match r {
            Ok(e) => t.ev(e),
            Err(msg) => {
                t.ev(json!({"ev":"Panic","via":"EvictionManager op","msg":msg}));
                return;
            }
        }
        // observations
        let obs = common::catch(AssertUnwindSafe(|| {
            let cands: Vec<Value> = m
                .get_eviction_candidates()
                .iter()
                .map(|(id, r)| {
                    let mut j = reason_json(&Some(r.clone()));
                    j["p"] = json!(index.get(id).copied().unwrap_or(0));
                    j
                })
                .collect();
            let mut evs = vec![json!({"ev":"Cands","c":cands})];
            for q in [i, rng.gen_range(0..npeers)] {
                let id = &peers[q];
                evs.push(json!({"ev":"Peer","p":q+1,"reason":reason_json(&m.get_eviction_reason(id)),
                    "evictF":m.should_evict(id),"evictT":m.should_evict_for_trust(id),"cf":m.get_consecutive_failures(id)}));
            }
            evs
        }));
        match obs {
            Ok(evs) => evs.into_iter().for_each(|e| t.ev(e)),
            Err(msg) => {
                t.ev(json!({"ev":"Panic","via":"EvictionManager query","msg":msg}));
                return;
            }
        }
    }
}

// ------------------------------------------------------------------ selection

struct MapTrust(HashMap<[u8; 32], f64>);
impl TrustProvider for MapTrust {
    fn get_trust(&self, node: &AdaptiveNodeId) -> f64 {
        self.0.get(&node.hash).copied().unwrap_or(0.0)
    }
    fn update_trust(&self, _from: &AdaptiveNodeId, _to: &AdaptiveNodeId, _success: bool) {}
    fn get_global_trust(&self) -> HashMap<AdaptiveNodeId, f64> {
        HashMap::new()
    }
    fn remove_node(&self, _node: &AdaptiveNodeId) {}
}

/// embedding with the model bits at chosen positions inside [lo, hi)
fn embed_in(rng: &mut impl Rng, bits: usize, lo: usize, hi: usize, random_fill: bool) -> Embed {
    let mut all: Vec<usize> = (lo..hi).collect();
    all.shuffle(rng);
    let mut pos: Vec<usize> = all.into_iter().take(bits).collect();
    pos.sort();
    let mut fill = [0u8; 32];
    if random_fill {
        rng.fill(&mut fill);
    }
    for &p in &pos {
        fill[p / 8] &= !(1u8 << (7 - (p % 8)));
    }
    Embed { pos, fill }
}

fn node(e: &Embed, id: u64) -> NodeInfo {
    NodeInfo { id: NodeId::from_bytes(e.embed(id)), address: format!("10.0.0.{}:9000", id % 250), last_seen: SystemTime::now(), capacity: NodeCapacity::default() }
}

fn sel_cfg(rng: &mut impl Rng) -> (TrustSelectionConfig, i64, i64) {
    let alpha: i64 = [300, 500, 300, 500, 1000, 0, 700][rng.gen_range(0..7)];
    let thr: i64 = [100, 200, 200, 0, 500, 1000][rng.gen_range(0..6)];
    (TrustSelectionConfig { trust_weight: alpha as f64 / 1000.0, min_trust_threshold: thr as f64 / 1000.0, exclude_untrusted: rng.gen_bool(0.5) }, alpha, thr)
}

fn select_segment(t: &mut Trace, rng: &mut impl Rng, seg: u64, calls: u64) {
    let (family, lo, hi) = [("lead", 0, 40), ("mid", 40, 128), ("low", 120, 256), ("last", 248, 256), ("spread", 0, 256), ("lead64", 0, 64)][(seg % 6) as usize];
    let bits = if family == "last" { [4usize, 6, 7][rng.gen_range(0..3)] } else { [4usize, 6, 7, 8][rng.gen_range(0..4)] };
    let e = embed_in(rng, bits, lo, hi, seg % 2 == 1);
    let space = 1u64 << bits;
    let library_cfgs = seg % 5 == 0;
    let force_zero_weight = seg % 9 == 4; // trust_weight 0.0 (documented range 0.0-1.0) at least once per run
    let (qc, qa, qt, sc, sa, st) = if library_cfgs {
        // the library's own configurations (values are per-mille floats)
        (TrustSelectionConfig::for_queries(), 300, 100, TrustSelectionConfig::for_storage(), 500, 200)
    } else {
        let (mut q, mut qa, qt) = sel_cfg(rng);
        let (s, sa, st) = sel_cfg(rng);
        if force_zero_weight {
            q.trust_weight = 0.0;
            qa = 0;
        }
        (q, qa, qt, s, sa, st)
    };
    t.ev(json!({"ev":"Reset","kind":"select","family":family,"bits":bits,"pos":e.pos,
        "query":{"alpha":qa,"thr":qt,"excl":qc.exclude_untrusted},"storage":{"alpha":sa,"thr":st,"excl":sc.exclude_untrusted}}));
    for _ in 0..calls {
        let n = match rng.gen_range(0..6) {
            0 => rng.gen_range(0..=3),
            1 | 2 => rng.gen_range(2..=8),
            3 => rng.gen_range(8..=20),
            _ => rng.gen_range(0..=64),
        }
        .min(space as usize);
        let mut ids: Vec<u64> = (0..space).collect();
        ids.shuffle(rng);
        ids.truncate(n);
        // trust levels: few distinct values so that equal-trust pairs are frequent
        let mut levels = vec![if (qa == 0 || sa == 0) && rng.gen_bool(0.5) { 0 } else { [0i64, 100, 199, 200, 500, 1000, 999, 201][rng.gen_range(0..8)] }];
        for _ in 0..rng.gen_range(0..3) {
            levels.push([0i64, 100, 199, 200, 500, 1000, rng.gen_range(0..=1000)][rng.gen_range(0..7)]);
        }
        let odd = rng.gen_bool(0.25);
        let mut map = HashMap::new();
        let cands: Vec<(u64, Tv)> = ids
            .iter()
            .map(|&x| {
                let tv = if odd && rng.gen_bool(0.2) {
                    [Tv::Nan, Tv::Val(-500), Tv::Val(1500), Tv::Val(-2000)][rng.gen_range(0..4)]
                } else {
                    Tv::Val(levels[rng.gen_range(0..levels.len())])
                };
                map.insert(e.embed(x), tv.f());
                (x, tv)
            })
            .collect();
        let nodes: Vec<NodeInfo> = cands.iter().map(|&(x, _)| node(&e, x)).collect();
        let sel = TrustAwarePeerSelector::with_storage_config(Arc::new(MapTrust(map)), qc.clone(), sc.clone());
        let key = rng.gen_range(0..space);
        let k = DhtKey::from_bytes(e.embed(key));
        let count = match rng.gen_range(0..6) {
            0 => 0,
            1 => 1,
            2 => 8,
            3 => n,
            _ => rng.gen_range(0..=n + 2),
        };
        let cj: Vec<Value> = cands.iter().map(|(x, tv)| json!({"id":x,"t":tv.j()})).collect();
        for storage in [false, true] {
            let via = if storage { "select_storage_peers" } else { "select_peers" };
            let (alpha, thr, excl) = if storage { (sa, st, sc.exclude_untrusted) } else { (qa, qt, qc.exclude_untrusted) };
            let r = common::catch(AssertUnwindSafe(|| if storage { sel.select_storage_peers(&k, &nodes, count) } else { sel.select_peers(&k, &nodes, count) }));
            match r {
                Ok(ans) => {
                    let a: Vec<i64> = ans.iter().map(|n| e.decode(n.id.as_bytes())).collect();
                    t.ev(json!({"ev":"Select","via":via,"key":key,"count":count,"alpha":alpha,"thr":thr,"excl":excl,"cands":cj,"ans":a}));
                }
                Err(msg) => t.ev(json!({"ev":"Panic","via":via,"key":key,"count":count,"cands":cj,"msg":msg})),
            }
        }
    }
}

// ------------------------------------------------------------------ engine

fn info(e: &Embed, id: u64, addr: &str) -> NodeInfo {
    NodeInfo { id: NodeId::from_bytes(e.embed(id)), address: addr.to_string(), last_seen: SystemTime::now(), capacity: NodeCapacity::default() }
}

fn adaptive_id(e: &Embed, x: u64) -> AdaptiveNodeId {
    AdaptiveNodeId { hash: e.embed(x) }
}

/// Random statements and anchors on a real EigenTrustEngine over the model ids, then one trust computation
/// (fills the cache that `TrustProvider::get_trust` reads).
async fn stir_trust(te: &saorsa_core::EigenTrustEngine, e: &Embed, space: u64, rng: &mut impl Rng) {
    for _ in 0..rng.gen_range(0..3 * space.min(24)) {
        let (a, b) = (rng.gen_range(0..space), rng.gen_range(0..space));
        te.update_local_trust(&adaptive_id(e, a), &adaptive_id(e, b), rng.gen_bool(0.8)).await;
    }
    if rng.gen_bool(0.3) {
        te.add_pre_trusted(adaptive_id(e, rng.gen_range(0..space))).await;
    }
    let _ = te.compute_global_trust().await;
}

/// Dense ranks of the trust values of all ids together with the threshold (last element of the result).
fn trust_ranks(vals: &[f64], thr: f64) -> (Vec<Value>, i64) {
    let mut distinct: Vec<f64> = vals.iter().copied().filter(|v| !v.is_nan()).collect();
    distinct.push(thr);
    distinct.sort_by(|a, b| a.total_cmp(b));
    distinct.dedup();
    let rank = |v: f64| distinct.iter().position(|d| d.total_cmp(&v) == std::cmp::Ordering::Equal).unwrap_or(0) as i64;
    let out = vals.iter().map(|v| if v.is_nan() { json!({"k":"nan","v":0}) } else if *v < 0.0 || *v > 1.0 { json!({"k":"val","v":-1 - rank(*v)}) } else { json!({"k":"val","v":rank(*v)}) }).collect();
    (out, rank(thr))
}

async fn engine_segment(t: &mut Trace, rng: &mut impl Rng, seg: u64, ops: u64) {
    let bits: usize = [3, 4, 5, 6, 8][(seg % 5) as usize];
    let with_trust = seg % 2 == 1 && bits <= 6;
    let e = Embed::new(bits, rng, seg % 3 == 2);
    let space = 1u64 << bits;
    let selfid = rng.gen_range(0..space);
    let mut eng = match DhtCoreEngine::new(NodeId::from_bytes(e.embed(selfid))) {
        Ok(x) => x,
        Err(err) => {
            eprintln!("engine: {err}");
            std::process::exit(2)
        }
    };
    t.ev(json!({"ev":"Reset","kind":"engine","self":selfid,"bits":bits,"pos":e.pos}));
    let mut last_removed: Option<u64> = None;
    // a real EigenTrustEngine as the trust provider of the engine's storage selection
    let mut te: Option<(Arc<saorsa_core::EigenTrustEngine>, TrustSelectionConfig, i64)> = None;
    if with_trust {
        let anchors: std::collections::HashSet<AdaptiveNodeId> = (0..rng.gen_range(1..=3)).map(|_| adaptive_id(&e, rng.gen_range(0..space))).collect();
        let eng_t = Arc::new(saorsa_core::EigenTrustEngine::new(anchors));
        stir_trust(&eng_t, &e, space, rng).await;
        let (scfg, alpha) = if seg % 4 == 1 {
            (TrustSelectionConfig::for_storage(), 500)
        } else {
            let alpha = [300i64, 500, 0, 1000][rng.gen_range(0..4)];
            (TrustSelectionConfig { trust_weight: alpha as f64 / 1000.0, min_trust_threshold: [0.0, 0.01, 0.03, 0.1, 0.2][rng.gen_range(0..5)], exclude_untrusted: rng.gen_bool(0.7) }, alpha)
        };
        eng.enable_trust_selection_with_storage_config(eng_t.clone(), TrustSelectionConfig::for_queries(), scfg.clone());
        te = Some((eng_t, scfg, alpha));
    }
    for _ in 0..ops {
        let x = rng.gen_range(0..space);
        if let Some((eng_t, _, _)) = &te
            && rng.gen_bool(0.15)
        {
            stir_trust(eng_t, &e, space, rng).await;
        }
        match rng.gen_range(0..10) {
            0..=4 => {
                let r = eng.join_network(vec![info(&e, x, "verif-join")]).await;
                t.ev(json!({"ev":"Add","via":"join_network","x":x,"ok":r.is_ok()}));
            }
            5 => {
                let id = NodeId::from_bytes(e.embed(x));
                {
                    let v = eng.close_group_validator();
                    let g = v.read().await;
                    let mut res = CloseGroupValidationResult::new(id.clone());
                    res.is_valid = true;
                    g.cache_result(res);
                }
                let r = eng.add_node(info(&e, x, "verif-add")).await;
                t.ev(json!({"ev":"Add","via":"add_node","x":x,"ok":r.is_ok()}));
            }
            6 => {
                let r = eng.handle_node_failure(NodeId::from_bytes(e.embed(x))).await;
                t.ev(json!({"ev":"Rm","via":"handle_node_failure","x":x,"ok":r.is_ok()}));
                last_removed = Some(x);
            }
            _ => {
                // remove a present member: the closest one to x
                let victim = match eng.find_nodes(&DhtKey::from_bytes(e.embed(x)), 1).await {
                    Ok(ans) => ans.first().cloned(),
                    Err(_) => None,
                };
                if let Some(n) = victim {
                    let y = e.decode(n.id.as_bytes());
                    if y < 0 {
                        return; // foreign id in an answer: C02 reports it; this segment cannot be followed
                    }
                    let r = if rng.gen_bool(0.5) {
                        let reason = match rng.gen_range(0..3) {
                            0 => EvictionReason::ConsecutiveFailures(3),
                            1 => EvictionReason::LowTrust("0.0100".into()),
                            _ => EvictionReason::Stale,
                        };
                        let r = eng.evict_node(&n.id, reason).await;
                        t.ev(json!({"ev":"Rm","via":"evict_node","x":y,"ok":r.is_ok()}));
                        r.is_ok()
                    } else {
                        let r = eng.handle_node_failure(n.id.clone()).await;
                        t.ev(json!({"ev":"Rm","via":"handle_node_failure","x":y,"ok":r.is_ok()}));
                        r.is_ok()
                    };
                    let _ = r;
                    last_removed = Some(y as u64);
                }
            }
        }
        // closest-node answers: around the last removed id and at random keys
        for j in 0..3 {
            let key = match (j, last_removed) {
                (0, Some(r)) => r,
                (1, Some(r)) => r ^ (1 << rng.gen_range(0..bits)),
                _ => rng.gen_range(0..space),
            };
            let k = DhtKey::from_bytes(e.embed(key));
            let n = [1usize, 3, 8, 20, 64][rng.gen_range(0..5)];
            match eng.find_nodes(&k, n).await {
                Ok(ans) => {
                    let a: Vec<i64> = ans.iter().map(|n| e.decode(n.id.as_bytes())).collect();
                    t.ev(json!({"ev":"Find","via":"find_nodes","key":key,"n":n,"ans":a}));
                }
                Err(err) => t.ev(json!({"ev":"FindErr","via":"find_nodes","key":key,"n":n,"err":err.to_string()})),
            }
        }
        // storage targets (K = 8): trust selection disabled, or enabled with the EigenTrustEngine above
        if rng.gen_bool(0.5) || te.is_some() {
            let key = last_removed.filter(|_| rng.gen_bool(0.5)).unwrap_or_else(|| rng.gen_range(0..space));
            let k = DhtKey::from_bytes(e.embed(key));
            let enabled = eng.has_trust_selection();
            match eng.store(&k, vec![1, 2, 3]).await {
                Ok(rc) => {
                    let a: Vec<i64> = rc.stored_at.iter().map(|id| e.decode(id.as_bytes())).collect();
                    if let Some((eng_t, scfg, alpha)) = &te {
                        let vals: Vec<f64> = (0..space).map(|x| eng_t.get_trust(&adaptive_id(&e, x))).collect();
                        let (tr, thr) = trust_ranks(&vals, scfg.min_trust_threshold);
                        t.ev(json!({"ev":"Store","key":key,"n":8,"trustSel":enabled,"ans":a,"tr":tr,"thr":thr,"excl":scfg.exclude_untrusted,"alpha":alpha}));
                    } else {
                        t.ev(json!({"ev":"Store","key":key,"n":8,"trustSel":enabled,"ans":a}));
                    }
                }
                Err(err) => t.ev(json!({"ev":"FindErr","via":"store","key":key,"n":8,"err":err.to_string()})),
            }
        }
    }
}

pub fn drive(a: &Args) -> i32 {
    common::quiet_panics();
    let out = a.str("out", "/dev/stdout");
    let esegs = a.num("evict_segments", 40);
    let eops = a.num("evict_ops", 40);
    let ssegs = a.num("select_segments", 30);
    let scalls = a.num("select_calls", 12);
    let gsegs = a.num("engine_segments", 20);
    let gops = a.num("engine_ops", 30);
    let mut t = Trace::create(&out);
    let mut rng = common::rng(16);
    for _ in 0..esegs {
        evict_segment(&mut t, &mut rng, eops);
    }
    for s in 0..ssegs {
        select_segment(&mut t, &mut rng, s, scalls);
    }
    let rt = common::rt();
    rt.block_on(async {
        for s in 0..gsegs {
            engine_segment(&mut t, &mut rng, s, gops).await;
        }
    });
    let n = t.finish();
    eprintln!("c16 drive: {n} events");
    0
}
