//! Bootstrap contact bookkeeping driver (specification growth): seeded random sequences of every public
//! operation of `saorsa_core::bootstrap::contact::ContactEntry` (with QualityMetrics, ConnectionHistory,
//! QuicContactInfo, QualityCalculator) on the real object. Before and after every operation the state is
//! projected to small integers: counters, latency window, failure map, capability set, flags, and the
//! floating-point scores as ppm (averages as 1/1000 ms resp. 1/100 ms). The projection also carries what
//! the scoring functions answer for that state (calculate_quality, calculate_with_weights with all weight
//! on one component, quic_quality_score, overall_score) and the band of the contact's age around those
//! calls. No expected values here. Oracle: spec/Trace_Contact.tla.
use crate::common::{self, Args, Trace};
use rand::Rng;
use saorsa_core::bootstrap::contact::{ContactEntry, QualityCalculator, QuicConnectionType, QuicContactInfo};
use serde_json::{Value, json};
use std::panic::AssertUnwindSafe;
use std::time::Duration;

const NAN: i64 = -2_000_000_000;
const ERRS: [&str; 3] = ["timeout", "refused", "reset"];
const CAPS: [&str; 4] = ["dht", "relay", "storage", "DHT"];

fn clampi(x: f64) -> i64 {
    x.round().clamp(-1e9, 1e9) as i64
}
fn ppm(x: f64) -> i64 {
    if x.is_nan() { NAN } else { clampi(x * 1e6) }
}
/// scaled and rounded, but a positive value never projects to 0 (the code tests `== 0.0`)
fn scaled_nz(x: f64, scale: f64) -> i64 {
    if x.is_nan() {
        return NAN;
    }
    let v = clampi(x * scale);
    if x > 0.0 && v == 0 { 1 } else { v }
}
fn age_ms(e: &ContactEntry) -> i64 {
    chrono::Utc::now().signed_duration_since(e.last_seen).num_milliseconds()
}
fn age_s(e: &ContactEntry) -> i64 {
    age_ms(e).div_euclid(1000)
}
fn tnum(t: &QuicConnectionType) -> u64 {
    match t {
        QuicConnectionType::DirectIPv4 => 1,
        QuicConnectionType::DirectIPv6 => 2,
    }
}
fn tof(n: u64) -> QuicConnectionType {
    if n == 1 { QuicConnectionType::DirectIPv4 } else { QuicConnectionType::DirectIPv6 }
}

fn project(e: &ContactEntry) -> Value {
    let h = &e.connection_history;
    let m = &e.quality_metrics;
    let mut fails: Vec<(u64, u64)> =
        h.connection_failures.iter().map(|(k, v)| (ERRS.iter().position(|x| x == k).map(|i| i as u64 + 1).unwrap_or(0), (*v).min(1_000_000_000))).collect();
    fails.sort();
    let mut caps: Vec<u64> = e.capabilities.iter().map(|c| CAPS.iter().position(|x| x == c).map(|i| i as u64 + 1).unwrap_or(0)).collect();
    caps.sort();
    caps.dedup();
    let sess: i64 = if h.total_session_time == Duration::MAX { -1 } else { h.total_session_time.as_millis().min(1_000_000_000) as i64 };
    let (quic, qtypes, qsetup, qcsr, qrates) = match &e.quic_contact {
        Some(q) => {
            let mut ts: Vec<u64> = q.successful_connection_types.iter().map(tnum).collect();
            ts.sort();
            let mut rs: Vec<(u64, i64)> = q.quic_quality.connection_type_success_rates.iter().map(|(t, r)| (tnum(t), scaled_nz(*r, 1e6))).collect();
            rs.sort();
            (true, ts, scaled_nz(q.quic_quality.avg_connection_setup_time_ms, 100.0), ppm(q.quic_quality.connection_success_rate), rs)
        }
        None => (false, vec![], 0, 0, vec![]),
    };
    // what the scoring functions say about this state, with the age band around the calls
    let calc = QualityCalculator::new();
    let a0 = age_s(e);
    let qn = calc.calculate_quality(e);
    let w = [
        calc.calculate_with_weights(e, 1.0, 0.0, 0.0, 0.0),
        calc.calculate_with_weights(e, 0.0, 1.0, 0.0, 0.0),
        calc.calculate_with_weights(e, 0.0, 0.0, 1.0, 0.0),
        calc.calculate_with_weights(e, 0.0, 0.0, 0.0, 1.0),
        calc.calculate_with_weights(e, 0.0, 0.0, 0.0, 0.0),
    ];
    let qq = e.quic_quality_score();
    let qo = e.quic_contact.as_ref().map(|q| ppm(q.quic_quality.overall_score())).unwrap_or(-1);
    let code_age = e.age_seconds().min(1_000_000_000);
    let a1 = age_s(e);
    json!({
        "att": h.total_attempts.min(1_000_000_000), "succ": h.successful_connections.min(1_000_000_000), "fail": h.failed_connections.min(1_000_000_000),
        "lats": h.recent_latencies.iter().map(|l| (*l).min(1_000_000_000)).collect::<Vec<u64>>(),
        "fails": fails.iter().map(|(k, v)| json!([k, v])).collect::<Vec<Value>>(),
        "caps": caps, "ver": e.ipv6_identity_verified, "rep": ppm(e.reputation_score),
        "rate": ppm(m.success_rate), "avg": scaled_nz(m.avg_latency_ms, 1000.0), "q": ppm(m.quality_score), "up": ppm(m.uptime_score),
        "sess": sess, "quic": quic, "qtypes": qtypes, "qsetup": qsetup, "qcsr": qcsr,
        "qrates": qrates.iter().map(|(k, v)| json!([k, v])).collect::<Vec<Value>>(),
        "obs": {"age": [a0, a1], "code_age": code_age, "qn": ppm(qn), "w": w.iter().map(|x| ppm(*x)).collect::<Vec<i64>>(), "qq": ppm(qq), "qo": qo},
    })
}

fn addr() -> std::net::SocketAddr {
    "127.0.0.1:9000".parse().expect("addr")
}
fn quic_info(csr_ppm: i64) -> QuicContactInfo {
    let mut q = QuicContactInfo::new(vec![addr()]);
    q.quic_quality.connection_success_rate = csr_ppm as f64 / 1e6;
    q
}

pub fn drive(a: &Args) -> i32 {
    let out = a.str("out", "/dev/stdout");
    let segments = a.num("segments", 40);
    let ops = a.num("ops", 60);
    common::quiet_panics();
    let mut t = Trace::create(&out);
    let mut rng = common::rng(31);
    let lat_pool: [u64; 12] = [0, 0, 1, 5, 50, 100, 450, 900, 901, 1900, 5000, 60000];
    let setup_pool: [u64; 8] = [0, 1, 50, 250, 999, 4000, 4001, 9000];
    let age_pool: [i64; 9] = [0, 60, 3600, 43200, 86400, 172800, 604800, 2592000, -3600];
    let factor_pool: [(i64, i64); 6] = [(0, 1), (1, 2), (9, 10), (1, 1), (3, 2), (-1, 2)];
    let csr_pool: [i64; 3] = [0, 500_000, 1_000_000];
    let mut panics = 0u64;
    for seg in 0..segments {
        let with_quic = rng.gen_range(0..3) == 0;
        let csr = csr_pool[rng.gen_range(0..3)];
        let mut e = if with_quic { ContactEntry::new_with_quic(format!("peer-{seg}"), vec![addr()], quic_info(csr)) } else { ContactEntry::new(format!("peer-{seg}"), vec![addr()]) };
        t.ev(json!({"ev":"Reset","seg":seg,"quic":with_quic,"csr":csr,"state":project(&e)}));
        let mut growth = 0;
        for _ in 0..ops {
            let pre = project(&e);
            let mut ev = json!({"ev":"Step"});
            let r = common::catch(AssertUnwindSafe(|| {
                // a NaN reputation makes every score NaN until the next update_reputation: do not stay there for long
                let roll = if e.reputation_score.is_nan() && rng.gen_range(0..3) == 0 { 36 } else { rng.gen_range(0..100) };
                if roll < 30 {
                    let success = rng.gen_range(0..10) < 6;
                    let lat: i64 = if rng.gen_range(0..5) == 0 { -1 } else if rng.gen_range(0..3) == 0 { rng.gen_range(0..2000) } else { lat_pool[rng.gen_range(0..lat_pool.len())] as i64 };
                    let err: usize = if rng.gen_range(0..4) == 0 { 0 } else { rng.gen_range(1..=ERRS.len()) };
                    // a latency with a failure / an error with a success are passed on purpose now and then
                    let pass_lat = if success { lat } else if rng.gen_range(0..4) == 0 { lat } else { -1 };
                    let pass_err = if !success { err } else if rng.gen_range(0..4) == 0 { err } else { 0 };
                    e.update_connection_result(success, if pass_lat >= 0 { Some(pass_lat as u64) } else { None }, if pass_err > 0 { Some(ERRS[pass_err - 1].to_string()) } else { None });
                    ev["op"] = json!("conn");
                    ev["success"] = json!(success);
                    ev["lat"] = json!(pass_lat);
                    ev["err"] = json!(pass_err);
                    ev["ok"] = json!(true);
                } else if roll < 36 {
                    let n = rng.gen_range(0..4);
                    let list: Vec<usize> = (0..n).map(|_| rng.gen_range(1..=CAPS.len())).collect();
                    e.update_capabilities(list.iter().map(|i| CAPS[*i - 1].to_string()).collect());
                    ev["op"] = json!("caps");
                    ev["list"] = json!(list);
                    ev["ok"] = json!(true);
                } else if roll < 42 {
                    let pool: [i64; 10] = [-500_000, 0, 250_000, 500_000, 900_000, 1_000_000, 1_500_000, NAN, 1_000_000_000, -1_000_000_000];
                    let mut x = pool[rng.gen_range(0..pool.len())];
                    if x == NAN && (e.reputation_score.is_nan() || rng.gen_range(0..2) == 0) {
                        x = 750_000;
                    }
                    let v = if x == NAN { f64::NAN } else if x == 1_000_000_000 { f64::INFINITY } else if x == -1_000_000_000 { f64::NEG_INFINITY } else { x as f64 / 1e6 };
                    e.update_reputation(v);
                    ev["op"] = json!("rep");
                    ev["x"] = json!(x);
                    ev["ok"] = json!(true);
                } else if roll < 45 {
                    e.mark_ipv6_verified();
                    ev["op"] = json!("verify");
                    ev["ok"] = json!(true);
                } else if roll < 51 {
                    // time passes (or the entry comes from a cache written with another clock): last_seen is a public field
                    let s = age_pool[rng.gen_range(0..age_pool.len())];
                    e.last_seen = chrono::Utc::now() - chrono::Duration::seconds(s);
                    ev["op"] = json!("age");
                    ev["a"] = json!(s);
                    ev["ok"] = json!(true);
                } else if roll < 56 {
                    let cur = age_s(&e);
                    let pool: [i64; 10] = [0, 1, 3600, 86399, 86400, 86401, 604800, cur - 1, cur, cur + 1];
                    let max_s = pool[rng.gen_range(0..pool.len())].max(0);
                    // band of the signed age around the call, in units of 10 ms (30 days of milliseconds do not fit 32 bits)
                    let m0 = age_ms(&e).div_euclid(10);
                    let res = e.is_stale(Duration::from_secs(max_s as u64));
                    let m1 = age_ms(&e).div_euclid(10) + 1;
                    ev["op"] = json!("stale");
                    ev["max"] = json!(max_s * 100);
                    ev["band"] = json!([m0, m1]);
                    ev["ok"] = json!(res);
                } else if roll < 60 {
                    let k = rng.gen_range(1..=CAPS.len());
                    ev["op"] = json!("hascap");
                    ev["k"] = json!(k);
                    ev["ok"] = json!(e.has_capability(CAPS[k - 1]));
                } else if roll < 63 {
                    e.recalculate_quality_score();
                    ev["op"] = json!("recalc");
                    ev["ok"] = json!(true);
                } else if roll < 65 {
                    e.update_success_rate();
                    ev["op"] = json!("rate");
                    ev["ok"] = json!(true);
                } else if roll < 69 {
                    let c = csr_pool[rng.gen_range(0..3)];
                    e.update_quic_contact(quic_info(c));
                    ev["op"] = json!("quic_set");
                    ev["csr"] = json!(c);
                    ev["ok"] = json!(true);
                } else if roll < 81 {
                    let ty = rng.gen_range(1..=2u64);
                    let success = rng.gen_range(0..10) < 6;
                    let setup: i64 = if rng.gen_range(0..4) == 0 { -1 } else { setup_pool[rng.gen_range(0..setup_pool.len())] as i64 };
                    e.update_quic_connection_result(tof(ty), success, if setup >= 0 { Some(setup as u64) } else { None });
                    ev["op"] = json!("quic_conn");
                    ev["t"] = json!(ty);
                    ev["success"] = json!(success);
                    ev["setup"] = json!(setup);
                    ev["ok"] = json!(true);
                } else if roll < 84 {
                    let ty = rng.gen_range(1..=2u64);
                    ev["op"] = json!("supports");
                    ev["t"] = json!(ty);
                    ev["ok"] = json!(e.supports_quic_connection_type(&tof(ty)));
                } else if roll < 89 {
                    let mut f = factor_pool[rng.gen_range(0..factor_pool.len())];
                    if f.0 > f.1 {
                        growth += 1;
                        if growth > 6 {
                            f = (1, 2);
                        }
                    }
                    e.quality_metrics.apply_age_decay(f.0 as f64 / f.1 as f64);
                    ev["op"] = json!("decay");
                    ev["num"] = json!(f.0);
                    ev["den"] = json!(f.1);
                    ev["ok"] = json!(true);
                } else if roll < 92 {
                    let d: i64 = if rng.gen_range(0..8) == 0 { -1 } else { rng.gen_range(0..100_000) };
                    e.connection_history.add_session_time(if d < 0 { Duration::MAX } else { Duration::from_millis(d as u64) });
                    ev["op"] = json!("session");
                    ev["d"] = json!(d);
                    ev["ok"] = json!(true);
                } else if roll < 95 {
                    let k = rng.gen_range(1..=ERRS.len());
                    ev["op"] = json!("failrate");
                    ev["err"] = json!(k);
                    ev["val"] = json!(ppm(e.connection_history.get_failure_rate(ERRS[k - 1])));
                    ev["ok"] = json!(true);
                } else {
                    // paired histories: the same entry continued in different ways
                    let mut s1 = e.clone();
                    s1.update_connection_result(true, None, None);
                    let mut s2 = e.clone();
                    s2.update_connection_result(true, None, None);
                    let mut f1 = e.clone();
                    f1.update_connection_result(false, None, None);
                    let l1 = lat_pool[rng.gen_range(0..lat_pool.len())];
                    let l2 = l1 + [0u64, 1, 100, 2000][rng.gen_range(0..4)];
                    let mut la = e.clone();
                    la.update_connection_result(true, Some(l1), None);
                    let mut lb = e.clone();
                    lb.update_connection_result(true, Some(l2), None);
                    ev["op"] = json!("pair");
                    ev["ps"] = project(&s1);
                    ev["ps2"] = project(&s2);
                    ev["pf"] = project(&f1);
                    ev["l1"] = json!(l1);
                    ev["l2"] = json!(l2);
                    ev["pa"] = project(&la);
                    ev["pb"] = project(&lb);
                    ev["ok"] = json!(true);
                }
            }));
            match r {
                Ok(()) => {
                    ev["pre"] = pre;
                    ev["post"] = project(&e);
                    t.ev(ev);
                }
                Err(msg) => {
                    panics += 1;
                    t.ev(json!({"ev":"Panic","seg":seg,"op":ev["op"].clone(),"msg":msg}));
                    break;
                }
            }
        }
    }
    // probe outside the model: ten latency samples are summed as u64 (update_latency_average)
    let probe = common::catch(AssertUnwindSafe(|| {
        let mut e = ContactEntry::new("peer-probe".to_string(), vec![addr()]);
        e.update_connection_result(true, Some(u64::MAX), None);
        e.update_connection_result(true, Some(u64::MAX), None);
        ppm(e.quality_metrics.avg_latency_ms / 1e12)
    }));
    t.ev(match probe {
        Ok(v) => json!({"ev":"Probe","what":"two latencies of u64::MAX","panicked":false,"avg_e12_ppm":v}),
        Err(m) => json!({"ev":"Probe","what":"two latencies of u64::MAX","panicked":true,"msg":m}),
    });
    let n = t.finish();
    eprintln!("contact drive: {n} events, {panics} panics");
    0
}
