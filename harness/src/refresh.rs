//! Bucket refresh bookkeeping driver (specification growth module Refresh): seeded random sequences of
//! the public operations of a real `BucketRefreshManager` (with its `CloseGroupValidator` attached in
//! most segments). Before and after every operation the projected state is logged: for every
//! existing bucket of a fixed probe set `[index, age ms, node_count, tier, successes, failures,
//! validation passes, validation failures, validation age ms (-1 = never), tracked node tokens]`,
//! the total failure counter, validator presence, attack mode and the stored attack indicators
//! (risks in per-mille). Oracle: spec/Trace_Refresh.tla with the functions of spec/RefreshRules.tla.
//!
//! Time: the component reads `std::time::Instant`. The driver makes time pass by moving
//! `last_refresh` / `last_validation` of every existing bucket into the past through the public
//! `get_or_create_state` handle (operation `advance`); real elapsed time adds a few milliseconds,
//! which the acceptor brackets with the ages logged before and after the call.
//!
//! Segment 0 is a fixed script (no randomness, no expected values either): the operation sequences
//! behind the observations reported for this module (mark before create, population change without
//! re-tiering, double tracking, reset that does not reach the validator's failure snapshot). All other
//! segments are random; "recovery" segments start failure-heavy and turn clean so that attack mode is
//! both entered and left.
//!
//! Trusted base (projections, no expected values): tokens of tracked nodes are positions in the
//! segment's node pool; floats are logged as `round(1000 x)`; the node classes of a validation batch
//! are built by `witnesses` below exactly as described in RefreshRules.tla (`VerdictOf`).
use crate::common::{self, Args, Trace};
use rand::Rng;
use saorsa_core::dht::core_engine::NodeId;
use saorsa_core::dht::routing_maintenance::close_group_validator::{
    CloseGroupFailure, CloseGroupResponse, CloseGroupValidationResult, CloseGroupValidator, CloseGroupValidatorConfig,
};
use saorsa_core::dht::routing_maintenance::{BucketRefreshManager, RefreshTier};
use serde_json::{Map, Value, json};
use std::collections::HashMap;
use std::panic::AssertUnwindSafe;
use std::sync::Arc;
use std::time::{Duration, Instant};

/// Bucket indices the projection probes (operations only ever use these).
const PROBE: [usize; 10] = [0, 1, 2, 3, 4, 5, 6, 7, 255, 300];
const CLASSES: [&str; 7] = ["none", "good", "oneregion", "collude", "lowtrust", "deny", "untrusted"];
const ADVANCES: [u64; 17] = [1, 30, 59, 60, 61, 240, 299, 300, 301, 600, 899, 900, 901, 2700, 3599, 3600, 3601];

#[derive(Clone, Debug)]
enum Op {
    Init(usize),
    Touch(usize),
    Success(usize, usize),
    Failure(usize),
    MarkClose(usize),
    MarkRecent(usize),
    Retier(usize, bool, bool),
    Advance(u64),
    Needs(usize),
    NeedsWith(usize, u64),
    List,
    VPass(usize),
    VFail(usize),
    Process(usize, bool),
    VResult(usize, usize, usize),
    Track(usize, usize),
    Untrack(usize, usize),
    Nodes(usize),
    SetThr(u64),
    NeedVal,
    Rate(usize),
    ORate,
    Trigger,
    Reset,
    Deesc,
    SetVal,
    GenKey(usize),
    Validate(usize, Vec<&'static str>),
}

fn pm(x: f64) -> i64 {
    (x * 1000.0).round() as i64
}

fn tier_name(t: RefreshTier) -> &'static str {
    match t {
        RefreshTier::Critical => "Critical",
        RefreshTier::Important => "Important",
        RefreshTier::Standard => "Standard",
        RefreshTier::Background => "Background",
    }
}

fn reason(f: &CloseGroupFailure) -> &'static str {
    match f {
        CloseGroupFailure::NotInCloseGroup => "NotInCloseGroup",
        CloseGroupFailure::EvictedFromCloseGroup => "EvictedFromCloseGroup",
        CloseGroupFailure::InsufficientConfirmation => "InsufficientConfirmation",
        CloseGroupFailure::LowTrustScore => "LowTrustScore",
        CloseGroupFailure::InsufficientGeographicDiversity => "InsufficientGeographicDiversity",
        CloseGroupFailure::SuspectedCollusion => "SuspectedCollusion",
        CloseGroupFailure::AttackModeTriggered => "AttackModeTriggered",
    }
}

fn token(pool: &[NodeId], id: &NodeId) -> usize {
    pool.iter().position(|p| p == id).map(|i| i + 1).unwrap_or(0)
}

fn project(m: &BucketRefreshManager, pool: &[NodeId], rt: &tokio::runtime::Runtime) -> Value {
    let mut bk = Vec::new();
    for &u in PROBE.iter() {
        if let Some(s) = m.get_bucket_state(u) {
            let vage: i64 = match s.last_validation {
                Some(t) => t.elapsed().as_millis() as i64,
                None => -1,
            };
            let tr: Vec<usize> = s.tracked_nodes.iter().map(|n| token(pool, n)).collect();
            bk.push(json!([u, s.last_refresh.elapsed().as_millis() as u64, s.node_count, tier_name(s.tier), s.success_count, s.failure_count,
                           s.validated_nodes, s.validation_failures, vage, tr]));
        }
    }
    let attack = rt.block_on(m.is_attack_mode());
    let ind = match rt.block_on(m.get_attack_indicators()) {
        Some(i) => json!({"ecl": pm(i.eclipse_risk), "syb": pm(i.sybil_risk), "manip": i.routing_manipulation, "churn": pm(i.churn_rate), "recent": i.recent_failures}),
        None => json!({"ecl": 0, "syb": 0, "manip": false, "churn": 0, "recent": 0}),
    };
    json!({"bk": bk, "tvf": m.total_validation_failures(), "val": m.validation_enabled(), "attack": attack, "ind": ind})
}

fn fresh_id(rng: &mut impl Rng) -> NodeId {
    let mut b = [0u8; 32];
    rng.fill(&mut b);
    NodeId::from_bytes(b)
}

/// Witness responses (and the candidate's own trust) for one node of the given class.
fn witnesses(class: &str, rng: &mut impl Rng) -> (Vec<CloseGroupResponse>, Option<f64>) {
    if class == "none" {
        return (Vec::new(), None);
    }
    let mut v = Vec::new();
    for i in 0..5u64 {
        let region = if class == "oneregion" { "r1".to_string() } else { format!("r{}", 1 + i % 3) };
        let latency = if class == "collude" { Duration::from_millis(50 + i) } else { Duration::from_millis(20 * (i + 1)) };
        v.push(CloseGroupResponse {
            peer_id: fresh_id(rng),
            confirms_membership: class != "deny",
            peer_trust_score: Some(if class == "untrusted" { 0.1 } else { 0.9 }),
            peer_region: Some(region),
            response_latency: latency,
            received_at: Instant::now(),
        });
    }
    (v, if class == "lowtrust" { Some(0.1) } else { None })
}

/// One segment's object under test and what the driver needs around it.
struct Seg {
    m: BucketRefreshManager,
    pool: Vec<NodeId>,
    advanced: u64,
}

/// Apply one operation to the real object; returns the fields to log (None = not applicable, nothing was called).
fn apply(sg: &mut Seg, op: &Op, rng: &mut impl Rng, rt: &tokio::runtime::Runtime) -> Option<Map<String, Value>> {
    let mut e = Map::new();
    let mut put = |k: &str, v: Value| {
        e.insert(k.to_string(), v);
    };
    put("ok", json!(true));
    let m = &mut sg.m;
    match op {
        Op::Init(n) => {
            m.initialize_buckets(*n);
            put("op", json!("init"));
            put("n", json!(n));
        }
        Op::Touch(b) => {
            let _ = m.get_or_create_state(*b);
            put("op", json!("touch"));
            put("b", json!(b));
        }
        Op::Success(b, n) => {
            m.record_refresh_success(*b, *n);
            put("op", json!("success"));
            put("b", json!(b));
            put("n", json!(n));
        }
        Op::Failure(b) => {
            m.record_refresh_failure(*b);
            put("op", json!("failure"));
            put("b", json!(b));
        }
        Op::MarkClose(b) => {
            m.mark_close_group(*b);
            put("op", json!("markclose"));
            put("b", json!(b));
        }
        Op::MarkRecent(b) => {
            m.mark_recently_used(*b);
            put("op", json!("markrecent"));
            put("b", json!(b));
        }
        Op::Retier(b, cg, ru) => {
            m.get_or_create_state(*b).update_tier(*cg, *ru);
            put("op", json!("retier"));
            put("b", json!(b));
            put("cg", json!(cg));
            put("ru", json!(ru));
        }
        Op::Advance(d) => {
            let dur = Duration::from_secs(*d);
            let existing: Vec<usize> = PROBE.iter().copied().filter(|u| m.get_bucket_state(*u).is_some()).collect();
            let possible = sg.advanced + d <= 40_000
                && existing.iter().all(|u| {
                    let s = m.get_bucket_state(*u).expect("exists");
                    s.last_refresh.checked_sub(dur).is_some() && s.last_validation.map(|x| x.checked_sub(dur).is_some()).unwrap_or(true)
                });
            if !possible {
                return None;
            }
            sg.advanced += d;
            for u in existing {
                let s = m.get_or_create_state(u);
                s.last_refresh = s.last_refresh.checked_sub(dur).expect("checked");
                s.last_validation = s.last_validation.map(|x| x.checked_sub(dur).expect("checked"));
            }
            put("op", json!("advance"));
            put("d", json!(d * 1000));
        }
        Op::Needs(b) => {
            let s = m.get_bucket_state(*b)?;
            put("op", json!("needs"));
            put("b", json!(b));
            put("ok", json!(s.needs_refresh()));
        }
        Op::NeedsWith(b, iv) => {
            let s = m.get_bucket_state(*b)?;
            put("op", json!("needswith"));
            put("b", json!(b));
            put("iv", json!(iv));
            put("ok", json!(s.needs_refresh_with_interval(Duration::from_millis(*iv))));
        }
        Op::List => {
            put("op", json!("list"));
            put("list", json!(m.get_buckets_needing_refresh()));
        }
        Op::VPass(b) => {
            m.record_node_validation_pass(*b);
            put("op", json!("vpass"));
            put("b", json!(b));
        }
        Op::VFail(b) => {
            m.record_node_validation_failure(*b);
            put("op", json!("vfail"));
            put("b", json!(b));
        }
        Op::Process(b, valid) => {
            let mut res = CloseGroupValidationResult::new(sg.pool[rng.gen_range(0..sg.pool.len())].clone());
            res.is_valid = *valid;
            rt.block_on(m.process_validation_result(*b, &res));
            put("op", json!("process"));
            put("b", json!(b));
            put("valid", json!(valid));
        }
        Op::VResult(b, x, y) => {
            m.record_validation_result(*b, *x, *y);
            put("op", json!("vresult"));
            put("b", json!(b));
        }
        Op::Track(b, n) => {
            m.track_node_in_bucket(*b, sg.pool[*n].clone());
            put("op", json!("track"));
            put("b", json!(b));
            put("n", json!(n + 1));
        }
        Op::Untrack(b, n) => {
            m.untrack_node_from_bucket(*b, &sg.pool[*n]);
            put("op", json!("untrack"));
            put("b", json!(b));
            put("n", json!(n + 1));
        }
        Op::Nodes(b) => {
            let nodes: Vec<usize> = m.get_nodes_in_bucket(*b).iter().map(|x| token(&sg.pool, x)).collect();
            put("op", json!("nodes"));
            put("b", json!(b));
            put("list", json!(nodes));
        }
        Op::SetThr(thr) => {
            m.set_validation_age_threshold(Duration::from_millis(*thr));
            put("op", json!("setthr"));
            put("d", json!(thr));
        }
        Op::NeedVal => {
            put("op", json!("needval"));
            put("list", json!(m.get_buckets_needing_validation()));
        }
        Op::Rate(b) => {
            let s = m.get_bucket_state(*b)?;
            put("op", json!("rate"));
            put("b", json!(b));
            put("res", json!(pm(s.validation_rate())));
        }
        Op::ORate => {
            put("op", json!("orate"));
            put("res", json!(pm(m.overall_validation_rate())));
        }
        Op::Trigger => {
            put("op", json!("trigger"));
            put("ok", json!(m.should_trigger_attack_mode()));
        }
        Op::Reset => {
            m.reset_validation_failures();
            put("op", json!("reset"));
        }
        Op::Deesc => {
            rt.block_on(m.check_deescalation());
            put("op", json!("deesc"));
        }
        Op::SetVal => {
            m.set_validator(Arc::new(tokio::sync::RwLock::new(CloseGroupValidator::new(CloseGroupValidatorConfig::default()))));
            put("op", json!("setval"));
        }
        Op::GenKey(g) => {
            let res: i64 = match m.generate_key_for_bucket(*g) {
                Some(k) => m.bucket_index(&k) as i64,
                None => -1,
            };
            put("op", json!("genkey"));
            put("n", json!(g));
            put("res", json!(res));
        }
        Op::Validate(b, cs) => {
            let nodes: Vec<NodeId> = cs.iter().map(|_| fresh_id(rng)).collect();
            let mut responses: HashMap<NodeId, Vec<CloseGroupResponse>> = HashMap::new();
            let mut trust: HashMap<NodeId, f64> = HashMap::new();
            for (c, id) in cs.iter().zip(nodes.iter()) {
                let (w, own) = witnesses(c, rng);
                if !w.is_empty() {
                    responses.insert(id.clone(), w);
                }
                if let Some(x) = own {
                    trust.insert(id.clone(), x);
                }
            }
            let (good, bad) = rt.block_on(m.validate_refreshed_nodes(*b, &nodes, &responses, &trust));
            let idx = |id: &NodeId| nodes.iter().position(|x| x == id).map(|i| i + 1).unwrap_or(0);
            let good: Vec<usize> = good.iter().map(idx).collect();
            let bad: Vec<Value> = bad.iter().map(|(id, rs)| json!([idx(id), rs.iter().map(reason).collect::<Vec<_>>()])).collect();
            put("op", json!("validate"));
            put("b", json!(b));
            put("cs", json!(cs));
            put("valid", json!(good));
            put("invalid", json!(bad));
        }
    }
    Some(e)
}

/// The fixed script of segment 0 (validator attached).
fn script() -> Vec<Op> {
    let mut v = vec![
        // mark before the bucket's state exists, then create it
        Op::MarkClose(3),
        Op::Success(3, 4),
        Op::Advance(61),
        Op::Needs(3),
        Op::List,
        // the other order
        Op::Touch(4),
        Op::MarkClose(4),
        Op::Advance(61),
        Op::Needs(4),
        Op::List,
        Op::MarkRecent(4),
        // population changes without re-tiering
        Op::Success(5, 5),
        Op::Retier(5, false, false),
        Op::Success(5, 0),
        // the same node tracked twice, removed once
        Op::Track(6, 0),
        Op::Track(6, 0),
        Op::Nodes(6),
        Op::Untrack(6, 0),
        Op::Nodes(6),
        // eleven rejected nodes: attack mode through the indicators of the batch that crosses the threshold
        Op::Validate(0, vec!["none"; 5]),
        Op::Validate(0, vec!["none"; 5]),
        Op::Trigger,
        Op::Validate(0, vec!["none"]),
        Op::Trigger,
        Op::Reset,
        Op::Trigger,
    ];
    // enough clean validations to lift the overall rate above 90 %
    for _ in 0..100 {
        v.push(Op::VPass(0));
    }
    v.extend([Op::ORate, Op::Trigger, Op::Deesc, Op::Validate(0, vec!["good"; 3]), Op::Deesc, Op::Trigger]);
    // the count threshold on its own: ten failures with a healthy rate, then the eleventh
    for _ in 0..10 {
        v.push(Op::VFail(1));
    }
    v.extend([Op::ORate, Op::Trigger, Op::VFail(1), Op::ORate, Op::Trigger, Op::Validate(1, vec!["good"]), Op::Reset, Op::Trigger, Op::Deesc]);
    v
}

fn random_op(rng: &mut impl Rng, mine: &[usize], recovery: bool, clean: bool, base_bias: u32, npool: usize) -> Op {
    let fail_bias = if recovery { if clean { 0 } else { 3 } } else { base_bias };
    let b = if rng.gen_range(0..8) == 0 { PROBE[rng.gen_range(0..PROBE.len())] } else { mine[rng.gen_range(0..mine.len())] };
    let mut choice = rng.gen_range(0..100u32);
    if recovery && rng.gen_bool(0.6) {
        choice = if clean { [95u32, 95, 95, 95, 90, 90, 54, 58, 85, 87][rng.gen_range(0..10)] } else { [95u32, 54, 58][rng.gen_range(0..3)] };
    }
    match choice {
        0..=2 => Op::Init(rng.gen_range(0..=4usize)),
        3..=5 => Op::Touch(b),
        6..=14 => Op::Success(b, rng.gen_range(0..=5usize)),
        15..=18 => Op::Failure(b),
        19..=22 => Op::MarkClose(b),
        23..=26 => Op::MarkRecent(b),
        27..=29 => Op::Retier(b, rng.gen_bool(0.4), rng.gen_bool(0.4)),
        30..=39 => Op::Advance(ADVANCES[rng.gen_range(0..ADVANCES.len())]),
        40..=43 => Op::Needs(b),
        44..=46 => Op::NeedsWith(b, [0u64, 1, 1000, 59_000, 60_000, 61_000, 300_000, 3_600_000][rng.gen_range(0..8)]),
        47..=52 => Op::List,
        53..=56 => {
            if rng.gen_range(0..4) < fail_bias {
                Op::VFail(b)
            } else {
                Op::VPass(b)
            }
        }
        57..=59 => Op::Process(b, rng.gen_range(0..4) >= fail_bias),
        60..=61 => Op::VResult(b, rng.gen_range(0..5), rng.gen_range(0..5)),
        62..=68 => Op::Track(b, rng.gen_range(0..npool)),
        69..=72 => Op::Untrack(b, rng.gen_range(0..npool)),
        73..=74 => Op::Nodes(b),
        75..=76 => Op::SetThr([0u64, 1000, 60_000, 300_000, 600_000][rng.gen_range(0..5)]),
        77..=79 => Op::NeedVal,
        80..=81 => Op::Rate(b),
        82..=83 => Op::ORate,
        84..=86 => Op::Trigger,
        87..=88 => Op::Reset,
        89..=91 => Op::Deesc,
        92 => Op::SetVal,
        93 => Op::GenKey([0usize, 1, 7, 8, 100, 255, 256, 1000][rng.gen_range(0..8)]),
        _ => {
            let len = if recovery { if clean { rng.gen_range(3..=5usize) } else { rng.gen_range(1..=2usize) } } else { rng.gen_range(0..=5usize) };
            let cs: Vec<&'static str> = (0..len)
                .map(|_| match fail_bias {
                    0 if recovery => {
                        if rng.gen_range(0..16) == 0 {
                            "none"
                        } else {
                            "good"
                        }
                    }
                    0 => ["good", "good", "good", "oneregion", "collude", "untrusted", "none"][rng.gen_range(0..7)],
                    1 => CLASSES[rng.gen_range(0..CLASSES.len())],
                    2 => ["none", "deny", "lowtrust", "good", "oneregion", "collude"][rng.gen_range(0..6)],
                    _ => ["none", "deny", "lowtrust", "oneregion"][rng.gen_range(0..4)],
                })
                .collect();
            Op::Validate(b, cs)
        }
    }
}

pub fn drive(a: &Args) -> i32 {
    let out = a.str("out", "/dev/stdout");
    let segments = a.num("segments", 40);
    let ops = a.num("ops", 60);
    let mut t = Trace::create(&out);
    let mut rng = common::rng(71);
    let rt = common::rt();
    common::quiet_panics();
    let mut panics = 0u64;
    for seg in 0..segments {
        let scripted = seg == 0;
        let with_val = scripted || rng.gen_range(0..4) != 0;
        let local = fresh_id(&mut rng);
        let m = if with_val { BucketRefreshManager::new_with_validation(local, CloseGroupValidatorConfig::default()) } else { BucketRefreshManager::new(local) };
        let pool: Vec<NodeId> = (0..4).map(|_| fresh_id(&mut rng)).collect();
        let mut sg = Seg { m, pool, advanced: 0 };
        // a segment prefers a few buckets so that interesting histories build up
        let nb = rng.gen_range(1..=4usize);
        let mine: Vec<usize> = (0..nb).map(|_| PROBE[rng.gen_range(0..PROBE.len())]).collect();
        // segments differ in how failure-heavy their validation traffic is; a "recovery" segment starts
        // failure-heavy for a few operations, then turns clean and spends most of its operations on validation traffic
        let recovery = rng.gen_range(0..4) == 0;
        let turn = rng.gen_range(2..8u64);
        let base_bias = rng.gen_range(0..4u32);
        let fixed = if scripted { script() } else { Vec::new() };
        let count = if scripted { fixed.len() as u64 } else { ops };
        t.ev(json!({"ev":"Reset","seg":seg,"val":with_val,"scripted":scripted}));
        for opno in 0..count {
            let op = if scripted { fixed[opno as usize].clone() } else { random_op(&mut rng, &mine, recovery, opno >= turn, base_bias, sg.pool.len()) };
            let pre = project(&sg.m, &sg.pool, &rt);
            let r = common::catch(AssertUnwindSafe(|| apply(&mut sg, &op, &mut rng, &rt)));
            match r {
                Ok(Some(mut e)) => {
                    e.insert("ev".to_string(), json!("Step"));
                    e.insert("pre".to_string(), pre);
                    e.insert("post".to_string(), project(&sg.m, &sg.pool, &rt));
                    t.ev(Value::Object(e));
                }
                Ok(None) => {}
                Err(msg) => {
                    panics += 1;
                    t.ev(json!({"ev":"Panic","op":format!("{op:?}"),"msg":msg}));
                    break;
                }
            }
        }
    }
    let n = t.finish();
    eprintln!("refresh drive: {n} events, {panics} panics");
    0
}
