//! C19 driver: every textual round trip of addresses the library performs, observed on the real
//! code: four-word encode/decode, Display/FromStr, serde, bootstrap word encoder, and probes of
//! every reachable consumer with every textual form. Outcome classes only (same / different /
//! error / none / panic); the oracle is spec/Trace_Address.tla.
//!
//! Trusted base: equality of the decoded SocketAddr with the one that was encoded (projection to
//! the outcome class), run-length encoding of port sweeps, the form classifier `classify`, the
//! construction of strings in each form for consumer probes, and the list of strings that are
//! malformed by construction.
use crate::common::{self, Args, Trace};
use rand::Rng;
use saorsa_core::NetworkAddress;
use saorsa_core::dht::core_engine::{DhtCoreEngine, NodeCapacity, NodeId, NodeInfo};
use saorsa_core::dht::routing_maintenance::close_group_validator::CloseGroupValidationResult;
use serde_json::{Value, json};
use std::net::{IpAddr, Ipv4Addr, Ipv6Addr, SocketAddr};
use std::str::FromStr;
use std::time::SystemTime;

fn addr_json(a: &SocketAddr) -> Value {
    match a.ip() {
        IpAddr::V4(ip) => {
            let o = ip.octets();
            json!([o[0], o[1], o[2], o[3], a.port()])
        }
        IpAddr::V6(ip) => {
            let s = ip.segments();
            json!([s[0], s[1], s[2], s[3], s[4], s[5], s[6], s[7], a.port()])
        }
    }
}

fn class<E>(orig: &SocketAddr, got: Result<Option<SocketAddr>, E>) -> &'static str {
    match got {
        Ok(Some(b)) if &b == orig => "same",
        Ok(Some(_)) => "different",
        Ok(None) => "none",
        Err(_) => "error",
    }
}

/// The round trips. Each returns the outcome class for one address.
const SITES: [&str; 6] = ["four_words", "display_fromstr", "words_fromstr", "serde_json", "serde_postcard", "bootstrap_words"];

fn round_trip(site: &str, a: &SocketAddr) -> &'static str {
    let a2 = *a;
    let site = site.to_string();
    let r = common::catch(move || -> &'static str {
        let na = NetworkAddress::new(a2);
        match site.as_str() {
            "four_words" => match na.four_words() {
                None => "none",
                Some(w) => class(&a2, NetworkAddress::from_four_words(w).map(|x| Some(x.socket_addr()))),
            },
            "display_fromstr" => class(&a2, NetworkAddress::from_str(&na.to_string()).map(|x| Some(x.socket_addr()))),
            "words_fromstr" => match na.four_words() {
                None => "none",
                Some(w) => class(&a2, NetworkAddress::from_str(w).map(|x| Some(x.socket_addr()))),
            },
            "serde_json" => match serde_json::to_string(&na) {
                Err(_) => "error",
                Ok(s) => match serde_json::from_str::<NetworkAddress>(&s) {
                    Ok(b) if b == na => "same",
                    Ok(_) => "different",
                    Err(_) => "error",
                },
            },
            "serde_postcard" => match postcard::to_stdvec(&na) {
                Err(_) => "error",
                Ok(s) => match postcard::from_bytes::<NetworkAddress>(&s) {
                    Ok(b) if b == na => "same",
                    Ok(_) => "different",
                    Err(_) => "error",
                },
            },
            _ => {
                let enc = saorsa_core::bootstrap::WordEncoder::new();
                match enc.encode_socket_addr(&a2) {
                    Err(_) => "none",
                    Ok(w) => class(&a2, enc.decode_to_socket_addr(&w).map(Some)),
                }
            }
        }
    });
    r.unwrap_or("panic")
}

/// Classify a string a producer emitted (pure syntax).
fn classify(s: &str) -> &'static str {
    if s.parse::<SocketAddr>().is_ok() {
        return "sock";
    }
    if s.parse::<IpAddr>().is_ok() {
        return "ipOnly";
    }
    if let Some((head, tail)) = s.split_once(" (") {
        if head.parse::<SocketAddr>().is_ok() && tail.ends_with(')') && is_words(&tail[..tail.len() - 1]) {
            return "sockWords";
        }
    }
    if s.starts_with("/ip4/") || s.starts_with("/ip6/") {
        return "multiaddr";
    }
    if is_words(s) {
        return "words";
    }
    "other"
}

fn is_words(s: &str) -> bool {
    let parts: Vec<&str> = s.split(['-', ' ']).collect();
    parts.len() >= 4 && parts.iter().all(|p| !p.is_empty() && p.chars().all(|c| c.is_ascii_alphabetic()))
}

/// The string for address `a` in textual form `f` (None when the form does not exist for it).
fn render(a: &SocketAddr, f: &str) -> Option<String> {
    let na = NetworkAddress::new(*a);
    match f {
        "sock" => Some(a.to_string()),
        "sockWords" => na.four_words().map(|w| format!("{a} ({w})")),
        "multiaddr" => Some(format!("/{}/{}/tcp/{}", if a.is_ipv4() { "ip4" } else { "ip6" }, a.ip(), a.port())),
        "words" => na.four_words().map(|w| w.to_string()),
        _ => Some(a.ip().to_string()),
    }
}

const FORMS: [&str; 5] = ["sock", "sockWords", "multiaddr", "words", "ipOnly"];

fn sweep_ports(t: &mut Trace, site: &str, ip: IpAddr) {
    let mut lo = 0u32;
    let mut cur: Option<&'static str> = None;
    for port in 0..=65535u32 {
        let a = SocketAddr::new(ip, port as u16);
        let out = round_trip(site, &a);
        match cur {
            Some(c) if c == out => {}
            Some(c) => {
                t.ev(json!({"ev":"RTSweep","site":site,"ip":addr_json(&SocketAddr::new(ip, 0)),"lo":lo,"hi":port - 1,"out":c}));
                lo = port;
                cur = Some(out);
            }
            None => cur = Some(out),
        }
    }
    if let Some(c) = cur {
        t.ev(json!({"ev":"RTSweep","site":site,"ip":addr_json(&SocketAddr::new(ip, 0)),"lo":lo,"hi":65535,"out":c}));
    }
}

fn v6_classes() -> Vec<Ipv6Addr> {
    [
        "::1", "::", "::ffff:1.2.3.4", "::ffff:255.255.255.255", "fe80::1", "fe80::dead:beef:1:2", "fc00::1", "fd12:3456:789a::1",
        "2001:db8::1", "2001:4860:4860::8888", "2a00:1450:4001:81b::200e", "ff02::1", "ffff:ffff:ffff:ffff:ffff:ffff:ffff:ffff",
        "64:ff9b::102:304", "2002:102:304::1", "1:2:3:4:5:6:7:8",
        "::2", "fe80::1:2", "fe80::a:b:c", "2001:db8::", "2001:db8:1::1", "2001:db8:0:1:1:1:1:1", "fd00::", "fc00::", "ff02::1:ff00:1",
        "2600::1", "2a00::", "::1:0:0:1", "100::1", "2001::1",
        "2001:db8:1:2:3:4:5:6", "2001:db8::1:2:3", "2001:db8:a:b:c::", "2001:db8:0:0:1:0:0:1", "2001:db8:ffff:ffff:ffff:ffff:ffff:ffff",
        "fe80::1:2:3:4", "fe80:0:0:1::1", "fe80::ffff:ffff:ffff:ffff", "::1:2", "::ffff:0:1", "0:0:1::", "1::", "1::1", "1:2::3:4",
        "fd00::1:2:3:4", "fc00:1:2:3:4:5:6:7", "ff0e::1:2:3", "ff01::", "2a00:1:2:3:4:5:6:0", "2a00:0:0:0:1:2:3:4",
    ]
    .iter()
    .filter_map(|s| s.parse().ok())
    .collect()
}

// (v6_classes is iterated with every edge port)
const EDGE_PORTS: [u16; 15] = [0, 1, 2, 79, 80, 443, 1023, 1024, 9000, 32767, 32768, 49151, 49152, 65534, 65535];

async fn gate_probe(address: &str) -> Result<(usize, usize), String> {
    // eight distinct peers announce the same address string; the engine's per-IP admission gates
    // can only refuse some of them if the string was understood as an IP address
    let mut eng = DhtCoreEngine::new(NodeId::from_bytes([7u8; 32])).map_err(|e| e.to_string())?;
    let mut ok = 0;
    let mut refused = 0;
    for i in 0..8u8 {
        let mut idb = [0u8; 32];
        idb[0] = 0x80 | i;
        idb[31] = i + 1;
        let id = NodeId::from_bytes(idb);
        {
            let v = eng.close_group_validator();
            let g = v.read().await;
            let mut res = CloseGroupValidationResult::new(id.clone());
            res.is_valid = true;
            g.cache_result(res);
        }
        let info = NodeInfo { id, address: address.to_string(), last_seen: SystemTime::now(), capacity: NodeCapacity::default() };
        match eng.add_node(info).await {
            Ok(()) => ok += 1,
            Err(e) => {
                let m = e.to_string();
                if m.contains("diversity") {
                    refused += 1
                } else {
                    return Err(m);
                }
            }
        }
    }
    Ok((ok, refused))
}


/// ---- 7. the wire path. An address travels: transport peer info of B (SocketAddr::to_string) -> multiaddr_from_address ->
/// Display -> routing table of B -> B's find-node reply -> dial_candidate of A -> connect_peer. Observed end to end on real
/// managers over the in-memory hub: the address A finally dials for C must be C's address. And `dial_candidate` is probed with
/// every textual form through a harness endpoint whose reply names C under that form.
fn net_segment(t: &mut Trace, n_addr: usize) -> Result<(), String> {
    use crate::net::{self, Endpoint, Fake, FakeReply, Hub};
    use rand::SeedableRng;
    use std::time::Duration;
    let mut rng = common::rng(1907);
    let mut addrs: Vec<SocketAddr> = vec![
        "45.33.12.9:1", "8.8.4.4:443", "203.0.113.77:65535", "100.64.3.2:9000", "[2001:db8::1]:9000", "[2a00:1450:4001:81b::200e]:443",
        "[fd12:3456:789a::1]:7000", "[fe80::dead:beef:1:2]:65535", "[::1]:9001", "127.0.0.1:9002", "[::ffff:1.2.3.4]:80", "[1:2:3:4:5:6:7:8]:1",
    ]
    .iter()
    .filter_map(|s| s.parse().ok())
    .collect();
    while addrs.len() < n_addr {
        let v4 = rng.gen_bool(0.6);
        let port = rng.gen_range(1..=65535u16);
        let ip: IpAddr = if v4 {
            IpAddr::V4(Ipv4Addr::new(rng.gen_range(1..224), rng.r#gen(), rng.r#gen(), rng.gen_range(1..255)))
        } else {
            let mut s: [u16; 8] = rng.r#gen();
            s[0] = 0x2000 | (s[0] & 0x1fff);
            IpAddr::V6(Ipv6Addr::new(s[0], s[1], s[2], s[3], s[4], s[5], s[6], s[7]))
        };
        addrs.push(SocketAddr::new(ip, port));
    }
    addrs.truncate(n_addr.max(4));
    let rt = net::paused_rt();
    let to = Duration::from_secs(2);
    // outcome of A's dials since `from_idx` with respect to the true address `x` of C
    fn dial_outcome(hub: &Hub, a_id: &str, from_idx: usize, x: &SocketAddr, others: &[String]) -> (&'static str, Vec<String>) {
        let st = hub.st.lock().expect("hub");
        let mine: Vec<String> = st.dials.iter().skip(from_idx).filter(|d| d.0 == a_id).map(|d| d.1.clone()).collect();
        let mut out = "error";
        for d in &mine {
            match d.parse::<SocketAddr>() {
                Ok(p) if &p == x => {
                    out = "same";
                    break;
                }
                Ok(p) if !others.contains(&p.to_string()) => out = "different",
                _ => {}
            }
        }
        (out, mine)
    }
    for (i, x) in addrs.iter().enumerate() {
        for dir in ["b_dials_c", "c_dials_b"] {
            let x2 = *x;
            let seed = rng.r#gen::<u64>();
            let r: Result<Value, String> = rt.block_on(async move {
                let mut r2 = rand_chacha::ChaCha8Rng::seed_from_u64(seed);
                let hub = Hub::new(rand_chacha::ChaCha8Rng::seed_from_u64(seed ^ 1), 3);
                let a = net::spawn_real(&hub, &net::hex_id(&mut r2), &net::addr_for(1), to, 8).await?;
                let b = net::spawn_real(&hub, &net::hex_id(&mut r2), &net::addr_for(2), to, 8).await?;
                let c = net::spawn_real(&hub, &net::hex_id(&mut r2), &x2.to_string(), to, 8).await?;
                if dir == "b_dials_c" {
                    let _ = b.mgr.connect_to_peer(&c.addr).await;
                } else {
                    let _ = c.mgr.connect_to_peer(&b.addr).await;
                }
                net::settle().await;
                let _ = a.mgr.connect_to_peer(&b.addr).await;
                net::settle().await;
                let d0 = hub.st.lock().expect("hub").dials.len();
                let f0 = hub.seq();
                let mut key = [0u8; 32];
                r2.fill(&mut key);
                let res = tokio::time::timeout(Duration::from_secs(600), a.mgr.find_closest_nodes(&key, 8)).await;
                net::settle().await;
                // what B's replies to A said about C
                let mut wire: Option<String> = None;
                for f in hub.frames_since(f0) {
                    if f.from == b.id && f.to == a.id
                        && let Some(m) = &f.dht
                        && let Some(saorsa_core::dht_network_manager::DhtNetworkResult::NodesFound { nodes, .. }) = &m.result
                    {
                        for n in nodes {
                            if n.peer_id == c.id {
                                wire = Some(n.address.clone());
                            }
                        }
                    }
                }
                let others = vec![a.addr.clone(), b.addr.clone()];
                let (out, dialled) = dial_outcome(&hub, &a.id, d0, &x2, &others);
                let reached = hub.st.lock().expect("hub").conns.iter().any(|(p, q)| (p == &a.id && q == &c.id) || (p == &c.id && q == &a.id));
                let listed = res.as_ref().ok().and_then(|r| r.as_ref().ok()).map(|v| v.iter().any(|n| n.peer_id == c.id)).unwrap_or(false);
                let ev = json!({"ev":"RT","site":format!("wire_reply_dial_{dir}"),"a":addr_json(&x2),
                    "out": if wire.is_none() { "none" } else if out == "same" && !reached { "error" } else { out },
                    "wire": wire, "dialled": dialled, "reached": reached, "in_result": listed});
                for n in [a, b, c] {
                    hub.set_silent(&n.id, true);
                    let _ = tokio::time::timeout(Duration::from_secs(3600), n.mgr.stop()).await;
                    let _ = tokio::time::timeout(Duration::from_secs(3600), n.transport.stop()).await;
                }
                Ok(ev)
            });
            let ev = r?;
            if let Some(w) = ev["wire"].as_str() {
                t.ev(json!({"ev":"Produce","producer":"Reply","form":classify(w),"a":addr_json(x),"text":w}));
            }
            t.ev(ev);
        }
        // dial_candidate probed with every form (first addresses only: one IPv4, one IPv6 at least)
        if i < 6 {
            for f in FORMS {
                let Some(s) = render(x, f) else { continue };
                let x2 = *x;
                let seed = rng.r#gen::<u64>();
                let s2 = s.clone();
                let r: Result<Value, String> = rt.block_on(async move {
                    let mut r2 = rand_chacha::ChaCha8Rng::seed_from_u64(seed);
                    let hub = Hub::new(rand_chacha::ChaCha8Rng::seed_from_u64(seed ^ 1), 0);
                    let a = net::spawn_real(&hub, &net::hex_id(&mut r2), &net::addr_for(1), to, 8).await?;
                    let c = net::spawn_real(&hub, &net::hex_id(&mut r2), &x2.to_string(), to, 8).await?;
                    let fid = net::hex_id(&mut r2);
                    let faddr = net::addr_for(3);
                    hub.register(&fid, &faddr, Endpoint::Fake(Fake { lookup_reply: FakeReply::Nodes(vec![(c.id.clone(), s2.clone())]), ack_put: false }));
                    let _ = a.mgr.connect_to_peer(&faddr).await;
                    net::settle().await;
                    let d0 = hub.st.lock().expect("hub").dials.len();
                    let mut key = [0u8; 32];
                    r2.fill(&mut key);
                    let h = tokio::spawn({
                        let m = a.mgr.clone();
                        async move { tokio::time::timeout(Duration::from_secs(600), m.find_closest_nodes(&key, 8)).await.is_ok() }
                    });
                    let fin = h.await;
                    net::settle().await;
                    let others = vec![a.addr.clone(), faddr.clone()];
                    let (out, dialled) = dial_outcome(&hub, &a.id, d0, &x2, &others);
                    let out = if matches!(fin, Err(ref e) if e.is_panic()) { "panic" } else { out };
                    let ev = json!({"ev":"Consume","consumer":"Dial","form":f,"a":addr_json(&x2),"out":out,"text":s2,"dialled":dialled});
                    for n in [a, c] {
                        hub.set_silent(&n.id, true);
                        let _ = tokio::time::timeout(Duration::from_secs(3600), n.mgr.stop()).await;
                        let _ = tokio::time::timeout(Duration::from_secs(3600), n.transport.stop()).await;
                    }
                    Ok(ev)
                });
                t.ev(r?);
            }
        }
    }
    Ok(())
}

pub fn drive(a: &Args) -> i32 {
    let out = a.str("out", "/dev/stdout");
    let samples = a.num("samples", 100_000);
    let sweep_ips = a.num("sweep_ips", 3) as usize;
    let mut t = Trace::create(&out);
    let mut rng = common::rng(19);
    common::quiet_panics();

    // ---- 1. round trips: boundary octets x boundary ports, every site
    t.ev(json!({"ev":"Reset","kind":"boundaries"}));
    let oct = [0u8, 1, 127, 128, 255];
    for &o1 in &oct {
        for &o2 in &oct {
            for &o3 in &oct {
                for &o4 in &oct {
                    for &p in &EDGE_PORTS {
                        let sa = SocketAddr::new(IpAddr::V4(Ipv4Addr::new(o1, o2, o3, o4)), p);
                        for site in SITES {
                            // the serde sites are independent of the octets: one octet pattern is enough
                            if site.starts_with("serde") && (o1 != o2 || o3 != o4) {
                                continue;
                            }
                            t.ev(json!({"ev":"RT","site":site,"a":addr_json(&sa),"out":round_trip(site, &sa)}));
                        }
                    }
                }
            }
        }
    }
    for ip in v6_classes() {
        for &p in &EDGE_PORTS {
            let sa = SocketAddr::new(IpAddr::V6(ip), p);
            for site in SITES {
                t.ev(json!({"ev":"RT","site":site,"a":addr_json(&sa),"out":round_trip(site, &sa)}));
            }
        }
    }
    // ---- 2. all 2^16 ports for a few addresses (run-length encoded)
    t.ev(json!({"ev":"Reset","kind":"port-sweeps"}));
    let ips: Vec<IpAddr> = ["192.168.1.1", "255.255.255.255", "0.0.0.0", "127.0.0.1", "10.0.0.1", "8.8.8.8", "::1", "2001:db8::1"]
        .iter()
        .filter_map(|s| s.parse().ok())
        .collect();
    for ip in ips.iter().take(sweep_ips) {
        for site in ["four_words", "display_fromstr", "bootstrap_words"] {
            sweep_ports(&mut t, site, *ip);
        }
    }
    // ---- 3. seeded samples of the 2^48 space (and of IPv6); non-"same" outcomes are logged one by one
    t.ev(json!({"ev":"Reset","kind":"samples"}));
    for site in ["four_words", "display_fromstr", "bootstrap_words"] {
        let mut same = 0u64;
        // at most 300 non-"same" samples per outcome class are logged one by one; the rest is counted per class
        let mut logged: std::collections::BTreeMap<&'static str, u64> = Default::default();
        let mut unlogged: std::collections::BTreeMap<&'static str, u64> = Default::default();
        let n4 = samples;
        let n6 = samples / 10;
        for i in 0..(n4 + n6) {
            let sa = if i < n4 {
                SocketAddr::new(IpAddr::V4(Ipv4Addr::from(rng.r#gen::<u32>())), rng.r#gen())
            } else {
                SocketAddr::new(IpAddr::V6(Ipv6Addr::from(rng.r#gen::<u128>())), rng.r#gen())
            };
            let out = round_trip(site, &sa);
            if out == "same" {
                same += 1;
            } else if *logged.get(out).unwrap_or(&0) < 300 {
                *logged.entry(out).or_insert(0) += 1;
                t.ev(json!({"ev":"RT","site":site,"a":addr_json(&sa),"out":out}));
            } else {
                *unlogged.entry(out).or_insert(0) += 1;
            }
        }
        let ul: Vec<Value> = unlogged.iter().map(|(k, v)| json!([k, v.min(&1_000_000_000)])).collect();
        t.ev(json!({"ev":"RTBulk","site":site,"n":n4 + n6,"same":same,"unlogged":ul}));
    }
    // ---- 4. separator / case variants of the word form
    t.ev(json!({"ev":"Reset","kind":"variants"}));
    for _ in 0..300 {
        let sa = if rng.gen_bool(0.8) {
            SocketAddr::new(IpAddr::V4(Ipv4Addr::from(rng.r#gen::<u32>())), rng.gen_range(0..65535))
        } else {
            SocketAddr::new(IpAddr::V6(Ipv6Addr::from(rng.r#gen::<u128>())), rng.gen_range(0..65535))
        };
        let na = NetworkAddress::new(sa);
        let Some(w) = na.four_words().map(|s| s.to_string()) else { continue };
        let variants: Vec<(&str, String)> = vec![
            ("spaces", w.replace('-', " ")),
            ("dots", w.replace('-', ".")),
            ("upper", w.to_uppercase()),
            ("capitalised", w.split('-').map(|p| { let mut c = p.chars(); c.next().map(|f| f.to_uppercase().collect::<String>() + c.as_str()).unwrap_or_default() }).collect::<Vec<_>>().join("-")),
            ("mixed-separators", w.replacen('-', " ", 1)),
            ("double-hyphen", w.replacen('-', "--", 1)),
            ("padded", format!("  {w} ")),
            ("trailing-hyphen", format!("{w}-")),
            ("underscores", w.replace('-', "_")),
        ];
        for (name, s) in variants {
            for (site, f) in [("from_four_words", 0), ("from_str", 1)] {
                let s2 = s.clone();
                let r = common::catch(move || {
                    let r = if f == 0 { NetworkAddress::from_four_words(&s2) } else { NetworkAddress::from_str(&s2) };
                    class(&sa, r.map(|x| Some(x.socket_addr())))
                });
                t.ev(json!({"ev":"Variant","site":site,"variant":name,"a":addr_json(&sa),"out":r.unwrap_or("panic")}));
            }
        }
    }
    // ---- 5. malformed strings (malformed by construction)
    t.ev(json!({"ev":"Reset","kind":"malformed"}));
    let mut bad: Vec<(&str, String)> = vec![
        ("empty", String::new()),
        ("space", " ".into()),
        ("port-too-large", "1.2.3.4:65536".into()),
        ("port-huge", "1.2.3.4:99999999999999999999".into()),
        ("port-negative", "1.2.3.4:-1".into()),
        ("octet-too-large", "256.1.1.1:80".into()),
        ("three-octets", "1.2.3:80".into()),
        ("five-octets", "1.2.3.4.5:80".into()),
        ("missing-port", "1.2.3.4:".into()),
        ("v6-no-brackets", "2001:db8::1:80:zz".into()),
        ("v6-bad-bracket", "[2001:db8::1:80".into()),
        ("suffix-unclosed", "1.2.3.4:80 (a-b-c-d".into()),
        ("multiaddr-bad-port", "/ip4/1.2.3.4/tcp/70000".into()),
        ("multiaddr-bad-ip", "/ip4/1.2.3.999/tcp/80".into()),
        ("multiaddr-short", "/ip4/1.2.3.4".into()),
        ("multiaddr-proto", "/ip4/1.2.3.4/udp/80".into()),
        ("one-word", "hello".into()),
        ("two-words", "hello-world".into()),
        ("three-words", "alpha-beta-gamma".into()),
        ("words-with-digits", "alpha1-beta2-gamma3-delta4".into()),
        ("words-not-in-dictionary", "zzzzqqqq-xxxxjjjj-qqqqzzzz-jjjjxxxx".into()),
        ("unicode", "\u{1F980}-\u{1F980}-\u{1F980}-\u{1F980}".into()),
        ("nul", "1.2.3.4:80\0".into()),
        ("newline", "1.2.3.4:80\n".into()),
        ("long", "a".repeat(100_000)),
        ("long-hyphens", "-".repeat(10_000)),
    ];
    for _ in 0..200 {
        let n = rng.gen_range(1..40);
        let s: String = (0..n).map(|_| char::from(rng.gen_range(33u8..127))).filter(|c| !c.is_ascii_alphabetic()).collect();
        if !s.is_empty() && s.parse::<SocketAddr>().is_err() && !s.starts_with("/ip") {
            bad.push(("random-non-letters", s));
        }
    }
    for (cl, s) in &bad {
        for site in ["from_str", "from_four_words", "bootstrap_decode"] {
            let s2 = s.clone();
            let r = common::catch(move || match site {
                "from_str" => NetworkAddress::from_str(&s2).is_ok(),
                "from_four_words" => NetworkAddress::from_four_words(&s2).is_ok(),
                _ => match saorsa_core::bootstrap::FourWordAddress::from_string(&s2) {
                    Ok(w) => saorsa_core::bootstrap::WordEncoder::new().decode_to_socket_addr(&w).is_ok(),
                    Err(_) => false,
                },
            });
            let out = match r {
                Ok(true) => "accepted",
                Ok(false) => "error",
                Err(_) => "panic",
            };
            t.ev(json!({"ev":"Malformed","site":site,"class":cl,"out":out}));
        }
    }
    // ---- 6. producers (actual strings, classified) and consumers (probed with every form)
    t.ev(json!({"ev":"Reset","kind":"interop"}));
    let probes: Vec<SocketAddr> = ["192.168.1.1:9000", "8.8.4.4:443", "45.33.12.9:1"]
        .iter()
        .filter_map(|s| s.parse().ok())
        .collect();
    for sa in &probes {
        let na = NetworkAddress::new(*sa);
        t.ev(json!({"ev":"Produce","producer":"Display","form":classify(&na.to_string()),"a":addr_json(sa),"text":na.to_string()}));
        t.ev(json!({"ev":"Produce","producer":"SockToString","form":classify(&sa.to_string()),"a":addr_json(sa)}));
        if let Some(w) = na.four_words() {
            t.ev(json!({"ev":"Produce","producer":"FourWords","form":classify(w),"a":addr_json(sa),"text":w}));
        }
        if let Ok(w) = saorsa_core::bootstrap::WordEncoder::new().encode_socket_addr(sa) {
            t.ev(json!({"ev":"Produce","producer":"BootEncode","form":classify(&w.0),"a":addr_json(sa),"text":w.0}));
        }
        // socket_addr_to_multiaddr is private; its format string is reproduced by render("multiaddr")
        if let Some(m) = render(sa, "multiaddr") {
            t.ev(json!({"ev":"Produce","producer":"ToMultiaddr","form":classify(&m),"a":addr_json(sa),"observed":false}));
        }
    }
    let rt = common::rt();
    for sa in &probes {
        for f in FORMS {
            let Some(s) = render(sa, f) else { continue };
            let sa2 = *sa;
            let s2 = s.clone();
            let r = common::catch(move || class(&sa2, NetworkAddress::from_str(&s2).map(|x| Some(x.socket_addr()))));
            t.ev(json!({"ev":"Consume","consumer":"FromStr","form":f,"a":addr_json(sa),"out":r.unwrap_or("panic")}));
            let s2 = s.clone();
            let r = common::catch(move || class(&sa2, NetworkAddress::from_four_words(&s2).map(|x| Some(x.socket_addr()))));
            t.ev(json!({"ev":"Consume","consumer":"FromFourWords","form":f,"a":addr_json(sa),"out":r.unwrap_or("panic")}));
            let s2 = s.clone();
            let r = common::catch(move || {
                let w = saorsa_core::bootstrap::FourWordAddress(s2);
                class(&sa2, saorsa_core::bootstrap::WordEncoder::new().decode_to_socket_addr(&w).map(Some))
            });
            t.ev(json!({"ev":"Consume","consumer":"BootDecode","form":f,"a":addr_json(sa),"out":r.unwrap_or("panic")}));
            // add_node: were the per-IP gates applied for this string?
            let s2 = s.clone();
            let r = common::catch(std::panic::AssertUnwindSafe(|| rt.block_on(gate_probe(&s2))));
            match r {
                Ok(Ok((ok, refused))) => {
                    // "same" = understood as an IP address (gates refused repeats); the port is not used by the gates
                    let out = if refused > 0 { "same" } else { "error" };
                    t.ev(json!({"ev":"Consume","consumer":"AddNode","form":f,"a":addr_json(sa),"out":out,"admitted":ok,"refused":refused}));
                }
                Ok(Err(e)) => {
                    eprintln!("c19: gate probe: {e}");
                    return 2;
                }
                Err(_) => t.ev(json!({"ev":"Consume","consumer":"AddNode","form":f,"a":addr_json(sa),"out":"panic"})),
            }
        }
    }
    // routing-table admission is also handed IPv6 socket addresses (plain, bare, and the library's rendering): the per-/64 gate
    // must see them as that address. (The word-based consumers are not probed with IPv6: the dependency's IPv6 word encoding
    // is recorded separately, C19-F4..F6.)
    for s6 in ["[2001:db8::1]:9000", "[2a00:1450:4001:81b::200e]:443", "[fd12:3456:789a::1]:7000", "[2001:db8:1:2:3:4:5:6]:1"] {
        let Ok(sa) = s6.parse::<SocketAddr>() else { continue };
        let na = NetworkAddress::new(sa);
        let forms: Vec<(&str, String)> = vec![("sock", sa.to_string()), ("ipOnly", sa.ip().to_string()), (classify(&na.to_string()), na.to_string())];
        for (f, text) in forms {
            if f == "other" {
                continue;
            }
            let t2 = text.clone();
            let r = common::catch(std::panic::AssertUnwindSafe(|| rt.block_on(gate_probe(&t2))));
            match r {
                Ok(Ok((ok, refused))) => {
                    let out = if refused > 0 { "same" } else { "error" };
                    t.ev(json!({"ev":"Consume","consumer":"AddNode","form":f,"a":addr_json(&sa),"out":out,"admitted":ok,"refused":refused,"text":text}));
                }
                Ok(Err(e)) => {
                    eprintln!("c19: gate probe: {e}");
                    return 2;
                }
                Err(_) => t.ev(json!({"ev":"Consume","consumer":"AddNode","form":f,"a":addr_json(&sa),"out":"panic","text":text})),
            }
        }
    }
    if let Err(e) = net_segment(&mut t, a.num("net_addrs", 12) as usize) {
        eprintln!("c19: net segment: {e}");
        return 2;
    }
    t.ev(json!({"ev":"Interop"}));
    let n = t.finish();
    eprintln!("c19 drive: {n} events");
    0
}

/// `scverif c19 show addr=<socket address>`: print what the library produces and reads back (reproduction aid).
pub fn show(a: &Args) -> i32 {
    let Ok(sa) = a.str("addr", "192.168.1.1:9000").parse::<SocketAddr>() else {
        eprintln!("addr= must be a socket address");
        return 2;
    };
    let na = NetworkAddress::new(sa);
    println!("display        : {na}");
    println!("display->parse : {:?}", NetworkAddress::from_str(&na.to_string()).map(|x| x.socket_addr()).map_err(|e| e.to_string()));
    println!("four_words     : {:?}", na.four_words());
    if let Some(w) = na.four_words() {
        println!("words->decode  : {:?}", NetworkAddress::from_four_words(w).map(|x| x.socket_addr()).map_err(|e| e.to_string()));
    }
    let enc = saorsa_core::bootstrap::WordEncoder::new();
    match enc.encode_socket_addr(&sa) {
        Ok(w) => println!("bootstrap      : {} -> {:?}", w.0, enc.decode_to_socket_addr(&w).map_err(|e| e.to_string())),
        Err(e) => println!("bootstrap      : encode error {e}"),
    }
    0
}
