//! C01 driver (also feeds C02's reply rule): iterative closest-node lookups on clusters of real
//! DhtNetworkManagers over the in-memory hub, with unresponsive and lying peers. Each lookup is
//! logged as one event holding its whole transcript (initial local knowledge, every request with
//! its outcome and the ids the reply named, the returned list) with ids as small integers and
//! XOR distances as ranks. The oracle is spec/Trace_Lookup.tla.
use crate::common::{self, Args, Trace};
use crate::net::{self, Cluster, ClusterSpec, Fake, FakeReply, Frame};
use rand::Rng;
use rand::seq::SliceRandom;
use saorsa_core::dht_network_manager::{DhtMessageType, DhtNetworkOperation, DhtNetworkResult};
use serde_json::{Value, json};
use std::collections::HashMap;
use std::time::Duration;

/// Interning of peer-id strings to small integers, per segment.
pub struct Names {
    pub map: HashMap<String, usize>,
    pub list: Vec<String>,
}

impl Names {
    pub fn new() -> Self {
        Names { map: HashMap::new(), list: Vec::new() }
    }
    pub fn id(&mut self, s: &str) -> usize {
        if let Some(i) = self.map.get(s) {
            return *i;
        }
        self.list.push(s.to_string());
        let i = self.list.len();
        self.map.insert(s.to_string(), i);
        i
    }
    /// rank of every interned id by XOR distance of its DHT key to `key` (1 = closest)
    pub fn ranks(&self, key: &[u8; 32]) -> Vec<usize> {
        let mut d: Vec<(Vec<u8>, usize)> = self
            .list
            .iter()
            .enumerate()
            .map(|(i, s)| {
                let k = saorsa_core::dht::derive_dht_key_from_peer_id(s);
                (k.iter().zip(key.iter()).map(|(a, b)| a ^ b).collect::<Vec<u8>>(), i)
            })
            .collect();
        d.sort();
        let mut r = vec![0usize; self.list.len()];
        for (pos, (_, i)) in d.iter().enumerate() {
            r[*i] = pos + 1;
        }
        r
    }
}

pub fn op_name(op: &DhtNetworkOperation) -> &'static str {
    match op {
        DhtNetworkOperation::Put { .. } => "Put",
        DhtNetworkOperation::Get { .. } => "Get",
        DhtNetworkOperation::FindNode { .. } => "FindNode",
        DhtNetworkOperation::FindValue { .. } => "FindValue",
        DhtNetworkOperation::Ping => "Ping",
        DhtNetworkOperation::Join => "Join",
        DhtNetworkOperation::Leave => "Leave",
    }
}

/// Requests sent by `origin` among `frames`, each paired with the reply the hub saw for it.
/// Returns (to, op, outcome, named node ids, value bytes if any).
pub fn transcript(frames: &[Frame], origin: &str) -> Vec<(String, &'static str, &'static str, Vec<String>, Option<Vec<u8>>)> {
    let mut out = Vec::new();
    for f in frames {
        let Some(m) = &f.dht else { continue };
        if f.from != origin || !matches!(m.message_type, DhtMessageType::Request) {
            continue;
        }
        let mut outcome = if f.fate == "unknown" { "senderr" } else { "failed" };
        let mut nodes = Vec::new();
        let mut value = None;
        for g in frames {
            if g.seq <= f.seq || g.to != origin || g.from != f.to {
                continue;
            }
            if let Some(r) = &g.dht
                && matches!(r.message_type, DhtMessageType::Response)
                && r.message_id == m.message_id
                && g.fate == "delivered"
            {
                outcome = "answered";
                match &r.result {
                    Some(DhtNetworkResult::NodesFound { nodes: ns, .. }) => nodes = ns.iter().map(|n| n.peer_id.clone()).collect(),
                    Some(DhtNetworkResult::ValueFound { value: v, .. }) | Some(DhtNetworkResult::GetSuccess { value: v, .. }) => value = Some(v.clone()),
                    _ => {}
                }
                break;
            }
        }
        out.push((f.to.clone(), op_name(&m.payload), outcome, nodes, value));
    }
    out
}

/// All DHT frames of a segment as events for the wire-level acceptor (Trace_Wire.tla).
pub fn frame_events(c: &Cluster, names: &mut Names) -> Vec<Value> {
    let mut out = vec![json!({"ev":"Reset"})];
    for f in c.hub.frames_since(0) {
        let Some(m) = &f.dht else { continue };
        let mtype = match m.message_type {
            DhtMessageType::Request => "Request",
            DhtMessageType::Response => "Response",
            DhtMessageType::Broadcast => "Broadcast",
            DhtMessageType::Error => "Error",
        };
        let result = match &m.result {
            Some(DhtNetworkResult::PutSuccess { .. }) => "PutSuccess",
            Some(DhtNetworkResult::GetSuccess { .. }) => "GetSuccess",
            Some(DhtNetworkResult::GetNotFound { .. }) => "GetNotFound",
            Some(DhtNetworkResult::NodesFound { .. }) => "NodesFound",
            Some(DhtNetworkResult::ValueFound { .. }) => "ValueFound",
            Some(DhtNetworkResult::PongReceived { .. }) => "PongReceived",
            Some(DhtNetworkResult::JoinSuccess { .. }) => "JoinSuccess",
            Some(DhtNetworkResult::LeaveSuccess) => "LeaveSuccess",
            Some(DhtNetworkResult::Error { .. }) => "Error",
            None => "none",
        };
        let real = c.reals.iter().any(|r| r.id == f.from);
        out.push(json!({"ev":"Frame","from":names.id(&f.from),"to":names.id(&f.to),"mtype":mtype,"op":op_name(&m.payload),
                        "id":m.message_id,"result":result,"fate":f.fate,"real":real}));
    }
    out
}

/// Lying endpoints for a cluster: replies naming unknown ids, the requester, themselves, duplicates, real ids.
pub async fn add_liars(c: &Cluster, rng: &mut impl Rng, invented: &mut Vec<String>) {
    let n = c.reals.len();
    for j in 0..c.fakes.len() {
        let mut nodes: Vec<(String, String)> = Vec::new();
        let menu = rng.gen_range(0..6);
        let cnt = rng.gen_range(1..10);
        for q in 0..cnt {
            match (menu + q) % 6 {
                0 => {
                    // unknown id at an address nobody listens on
                    let id = net::hex_id(rng);
                    invented.push(id.clone());
                    nodes.push((id, net::addr_for(500 + rng.gen_range(0..400))));
                }
                1 => {
                    let r = &c.reals[rng.gen_range(0..n)];
                    nodes.push((r.id.clone(), r.addr.clone()));
                }
                2 => nodes.push(c.fakes[j].clone()),
                3 => {
                    if let Some(last) = nodes.last().cloned() {
                        nodes.push(last);
                    }
                }
                4 => {
                    // an unknown id with an empty address
                    let id = net::hex_id(rng);
                    invented.push(id.clone());
                    nodes.push((id, String::new()));
                }
                _ => {
                    let r = &c.reals[0];
                    nodes.push((r.id.clone(), r.addr.clone()));
                }
            }
        }
        let reply = match rng.gen_range(0..6) {
            0 => FakeReply::Silent,
            1 => FakeReply::NotFound,
            _ => FakeReply::Nodes(nodes),
        };
        let mut attach: Vec<usize> = (0..n).collect();
        attach.shuffle(rng);
        attach.truncate(rng.gen_range(1..=n.min(3)));
        c.add_fake(j, Fake { lookup_reply: reply, ack_put: rng.gen_bool(0.5) }, &attach).await;
    }
}


/// Everything node `x` knows: the peers it has an open connection to plus the members of its routing table (a peer whose
/// connection was closed stays known only if the table holds it). Table members are DHT keys; they are mapped back to the
/// names of the cluster. Used as the ground-truth member set of local answers and find-node replies.
pub async fn known_of(c: &Cluster, x: &str) -> Vec<String> {
    let mut out: Vec<String> = c.hub.connected(x);
    if let Some(r) = c.reals.iter().find(|r| r.id == x) {
        let core = r.mgr.verif_core();
        let members: Vec<[u8; 32]> = {
            let g = core.read().await;
            let zero = saorsa_core::dht::core_engine::DhtKey::from_bytes([0u8; 32]);
            g.find_nodes(&zero, usize::MAX).await.map(|v| v.iter().map(|n| *n.id.as_bytes()).collect()).unwrap_or_default()
        };
        let closed: Vec<String> = c.hub.neighbours(x);
        for p in closed {
            if !out.contains(&p) && members.contains(&saorsa_core::dht::derive_dht_key_from_peer_id(&p)) {
                out.push(p);
            }
        }
    }
    out.sort();
    out
}

/// One lookup on a cluster, logged as the events the acceptor judges (Local, Lookup, Reply*). `extra` is merged into the
/// Lookup event (fields the acceptor does not read, e.g. the model's answer for spec -> impl replays).
pub async fn one_lookup(c: &Cluster, names: &mut Names, origin: &net::RealNode, key: [u8; 32], count: usize, invented: &[String],
                        events: &mut Vec<Value>, extra: Option<Value>) {
    let initial = origin.mgr.find_closest_nodes_local(&key, 10_000).await;
    // peers whose query attempt cannot reach the hub: no connection yet and dialling them fails
    // (nobody listens at the address a liar gave, or the peer is dead)
    let known0 = known_of(c, &origin.id).await;
    let mut unreachable: Vec<String> = invented.to_vec();
    let open0 = c.hub.connected(&origin.id);
    for s in &c.silent {
        if !open0.contains(s) {
            unreachable.push(s.clone());
        }
    }
    let seq0 = c.hub.seq();
    let res = tokio::time::timeout(Duration::from_secs(2 * 200), origin.mgr.find_closest_nodes(&key, count)).await;
    net::settle().await;
    let frames = c.hub.frames_since(seq0);
    let tr = transcript(&frames, &origin.id);
    let (hang, err, result): (bool, Option<String>, Vec<String>) = match res {
        Err(_) => (true, None, vec![]),
        Ok(Err(e)) => (false, Some(e.to_string()), vec![]),
        Ok(Ok(v)) => (false, None, v.iter().map(|n| n.peer_id.clone()).collect()),
    };
    let initial_ids: Vec<usize> = initial.iter().map(|n| names.id(&n.peer_id)).collect();
    let reqs: Vec<Value> = tr
        .iter()
        .map(|(to, op, outc, nodes, _)| json!({"to":names.id(to),"op":op,"out":outc,"nodes":nodes.iter().map(|x| names.id(x)).collect::<Vec<_>>()}))
        .collect();
    let result_ids: Vec<usize> = result.iter().map(|x| names.id(x)).collect();
    let me = names.id(&origin.id);
    // responsive honest population (for the full-mesh corollary)
    let honest: Vec<usize> = c.reals.iter().filter(|r| !c.silent.contains(&r.id)).map(|r| names.id(&r.id)).collect();
    let pure = c.fullmesh && c.silent.is_empty() && c.fakes.is_empty();
    // replies of real nodes to this lookup (C02 reply rule)
    let mut replies = Vec::new();
    for f in &frames {
        let Some(m) = &f.dht else { continue };
        if !matches!(m.message_type, DhtMessageType::Response) || !c.reals.iter().any(|r| r.id == f.from) {
            continue;
        }
        let nodes: Vec<usize> = match &m.result {
            Some(DhtNetworkResult::NodesFound { nodes, .. }) => nodes.iter().map(|n| names.id(&n.peer_id)).collect(),
            Some(DhtNetworkResult::GetNotFound { .. }) => vec![],
            _ => continue,
        };
        let known: Vec<usize> = known_of(c, &f.from).await.iter().map(|x| names.id(x)).collect();
        replies.push(json!({"x":names.id(&f.from),"r":names.id(&f.to),"known":known,"nodes":nodes}));
    }
    let rank = names.ranks(&key);
    // what the origin is connected to (hub view): its local knowledge must be exactly these peers
    let neigh_ids: Vec<usize> = known0.iter().map(|x| names.id(x)).collect();
    let rank = if rank.len() < names.list.len() { names.ranks(&key) } else { rank };
    events.push(json!({"ev":"Local","self":me,"neigh":neigh_ids,"initial":initial_ids,"rank":rank}));
    let mut lk = json!({"ev":"Lookup","self":me,"k":count,"rank":rank,"initial":initial_ids,"reqs":reqs,"result":result_ids,
                       "unreachable":unreachable.iter().map(|x| names.id(x)).collect::<Vec<_>>(),
                       "hang":hang,"err":err.unwrap_or_default(),"pure":pure,"honest":honest,"nids":names.list.len()});
    if let (Some(Value::Object(x)), Value::Object(o)) = (extra, &mut lk) {
        for (k, v) in x {
            o.insert(k, v);
        }
    }
    events.push(lk);
    for r in replies {
        events.push(json!({"ev":"Reply","x":r["x"],"r":r["r"],"known":r["known"],"nodes":r["nodes"],"rank":rank,"cap":8}));
    }
            }

pub fn drive(a: &Args) -> i32 {
    let out = a.str("out", "/dev/stdout");
    let segments = a.num("segments", 10);
    let lookups = a.num("lookups", 6);
    let max_nodes = a.num("max_nodes", 12) as usize;
    let mut t = Trace::create(&out);
    let mut frames_trace = a.0.get("frames").map(|p| Trace::create(p));
    let mut rng = common::rng(1);
    for seg in 0..segments {
        let rt = net::paused_rt();
        let spec = ClusterSpec {
            n_real: rng.gen_range(2..=max_nodes),
            n_fake: if seg % 3 == 0 { 0 } else { rng.gen_range(0..=3) },
            k: 8,
            request_timeout: Duration::from_secs(2),
            delay_max_ms: [0, 5, 50, 400][rng.gen_range(0..4)],
            p_silent: if seg % 2 == 0 { 0.0 } else { rng.gen_range(0.0..0.5) },
            conn_timeout_mult: 1,
        };
        let hub_rng = common::rng(1000 + seg);
        let mut events: Vec<Value> = Vec::new();
        rt.block_on(async {
            let c = match net::build_cluster(&spec, &mut rng, hub_rng).await {
                Ok(c) => c,
                Err(e) => {
                    eprintln!("cluster: {e}");
                    std::process::exit(2)
                }
            };
            if seg % 2 == 1 {
                // addresses invented by liars are hosts that never answer a dial (otherwise: nobody listens, refused at once)
                for i in 500..900 {
                    c.hub.add_blackhole(&net::addr_for(i));
                }
            }
            let mut invented = Vec::new();
            add_liars(&c, &mut rng, &mut invented).await;
            if seg % 3 == 2 {
                // some connections are closed again: each peer stays in the other's routing table and must still be
                // named under its one (transport) identifier and be reachable again through its recorded address
                for _ in 0..rng.gen_range(1..=4) {
                    let a = &c.reals[rng.gen_range(0..c.reals.len())];
                    let neigh: Vec<String> = c.hub.neighbours(&a.id).into_iter()
                        .filter(|p| c.reals.iter().any(|r| &r.id == p) && !c.silent.contains(p)).collect();
                    if let Some(b) = neigh.choose(&mut rng) {
                        // the connection is closed: both transports drop the peer (the remote side as it would on the
                        // connection-closed notification), the hub refuses frames until one of them dials again
                        c.hub.unlink(&a.id, b);
                        let _ = a.transport.disconnect_peer(b).await;
                        if let Some(rb) = c.reals.iter().find(|r| &r.id == b) {
                            let _ = rb.transport.disconnect_peer(&a.id).await;
                        }
                        net::settle().await;
                    }
                }
            }
            c.apply_silence();
            let mut names = Names::new();
            for r in &c.reals {
                names.id(&r.id);
            }
            for f in &c.fakes {
                names.id(&f.0);
            }
            for i in &invented {
                names.id(i);
            }
            events.push(json!({"ev":"Reset","topo":c.topo,"n_real":c.reals.len(),"n_fake":c.fakes.len(),
                               "silent":c.silent.iter().map(|s| names.id(s)).collect::<Vec<_>>(),"delay":spec.delay_max_ms}));
            for _ in 0..lookups {
                let oi = if rng.gen_bool(0.6) { 0 } else { rng.gen_range(0..c.reals.len()) };
                let origin = &c.reals[oi];
                if c.silent.contains(&origin.id) {
                    continue;
                }
                let mut key = [0u8; 32];
                if rng.gen_bool(0.3) {
                    // exact position of some node
                    let r = &c.reals[rng.gen_range(0..c.reals.len())];
                    key = saorsa_core::dht::derive_dht_key_from_peer_id(&r.id);
                } else {
                    rng.fill(&mut key);
                }
                let count = [1usize, 2, 3, 5, 8, 8, 20][rng.gen_range(0..7)];
                one_lookup(&c, &mut names, origin, key, count, &invented, &mut events, None).await;
            }
            if let Some(ft) = frames_trace.as_mut() {
                for e in frame_events(&c, &mut names) {
                    ft.ev(e);
                }
            }
            c.shutdown().await;
        });
        drop(rt);
        for e in events {
            t.ev(e);
        }
    }
    if let Some(ft) = frames_trace {
        ft.finish();
    }
    let n = t.finish();
    eprintln!("c01 drive: {n} events");
    0
}

/// spec -> impl: every configuration TLC enumerated for Replay_Lookup.tla (graph, target, silent peers) is built with real
/// managers whose DHT keys carry the model id in their leading bits; the real lookup is logged for Trace_Lookup.tla and the
/// model's deterministic answer is attached for the implementation-level comparison.
pub fn replay(a: &Args) -> i32 {
    let inp = a.str("in", "");
    let out = a.str("out", "/dev/stdout");
    let bits = a.num("bits", 3) as u32;
    let stride = a.num("stride", 1).max(1) as usize;
    let text = match std::fs::read_to_string(&inp) {
        Ok(t) => t,
        Err(e) => {
            eprintln!("c01 replay: {inp}: {e}");
            return 2;
        }
    };
    let mut rng = common::rng(77);
    // pool of peer ids per leading-bits value of their DHT key
    let classes = 1usize << bits;
    let mut pool: Vec<Vec<String>> = vec![Vec::new(); classes];
    while pool.iter().any(|p| p.len() < 6) {
        let id = net::hex_id(&mut rng);
        let k = saorsa_core::dht::derive_dht_key_from_peer_id(&id);
        let c = (k[0] >> (8 - bits)) as usize;
        if pool[c].len() < 6 {
            pool[c].push(id);
        }
    }
    let ints = |v: &Value| -> Vec<usize> { v.as_array().map(|x| x.iter().filter_map(|y| y.as_u64()).map(|y| y as usize).collect()).unwrap_or_default() };
    let mut t = Trace::create(&out);
    let mut n_cfg = 0usize;
    for (li, line) in text.lines().enumerate() {
        if line.trim().is_empty() || li % stride != 0 {
            continue;
        }
        let cfg: Value = match serde_json::from_str(line) {
            Ok(v) => v,
            Err(e) => {
                eprintln!("c01 replay: line {li}: {e}");
                return 2;
            }
        };
        let nodes = ints(&cfg["nodes"]);
        let me = cfg["self"].as_u64().unwrap_or(0) as usize;
        let k = cfg["k"].as_u64().unwrap_or(2) as usize;
        let target = cfg["target"].as_u64().unwrap_or(0) as u8;
        let silent = ints(&cfg["silent"]);
        let adj: Vec<Vec<usize>> = cfg["adj"].as_array().map(|x| x.iter().map(&ints).collect()).unwrap_or_default();
        // the origin first (names id 1), then the others in model order
        let mut order: Vec<usize> = vec![me];
        order.extend(nodes.iter().copied().filter(|x| *x != me));
        let rt = net::paused_rt();
        let hub_rng = common::rng(5000 + li as u64);
        let delay = [0u64, 0, 5, 50][rng.gen_range(0..4)];
        let mut events: Vec<Value> = Vec::new();
        let r: Result<(), String> = rt.block_on(async {
            let hub = net::Hub::new(hub_rng, delay);
            let mut reals = Vec::new();
            for (i, m) in order.iter().enumerate() {
                let id = pool[*m][rng.gen_range(0..pool[*m].len())].clone();
                reals.push(net::spawn_real(&hub, &id, &net::addr_for(i + 1), Duration::from_secs(2), 8).await?);
            }
            let pos = |m: usize| order.iter().position(|x| *x == m).unwrap_or(0);
            let mut edges = adj.clone();
            edges.shuffle(&mut rng);
            for e in &edges {
                if e.len() != 2 {
                    continue;
                }
                let (d, l) = if rng.gen_bool(0.5) { (pos(e[0]), pos(e[1])) } else { (pos(e[1]), pos(e[0])) };
                let addr = reals[l].addr.clone();
                let _ = reals[d].mgr.connect_to_peer(&addr).await;
                net::settle().await;
            }
            let full = adj.len() == nodes.len() * (nodes.len() - 1) / 2;
            let silent_ids: Vec<String> = silent.iter().map(|m| reals[pos(*m)].id.clone()).collect();
            let c = Cluster { hub, reals, fakes: vec![], topo: "model", fullmesh: full, silent: silent_ids };
            c.apply_silence();
            let mut names = Names::new();
            for r in &c.reals {
                names.id(&r.id);
            }
            events.push(json!({"ev":"Reset","topo":"model","n_real":c.reals.len(),"n_fake":0,
                               "silent":c.silent.iter().map(|s| names.id(s)).collect::<Vec<_>>(),"delay":delay,"cfg":li}));
            let mut key = [0u8; 32];
            rng.fill(&mut key);
            key[0] = (key[0] & (0xffu8 >> bits)) | (target << (8 - bits));
            // the model's answer in the names of this segment (names id = position in `order` + 1)
            let tr = |v: &Value| -> Vec<usize> { ints(v).iter().map(|m| pos(*m) + 1).collect() };
            let extra = json!({"model":{"result":tr(&cfg["result"]),"queried":tr(&cfg["queried"]),"answered":tr(&cfg["answered"]),
                                        "nreq":cfg["nreq"],"iter":cfg["iter"],"cfg":li}});
            one_lookup(&c, &mut names, &c.reals[0], key, k, &[], &mut events, Some(extra)).await;
            // the implementation-level comparison as an event of its own: returned list and answering peers, real vs model
            if let Some(lk) = events.iter().rev().find(|e| e["ev"] == "Lookup").cloned() {
                let mut ans: Vec<u64> = lk["reqs"].as_array().map(|r| r.iter().filter(|q| q["out"] == "answered").filter_map(|q| q["to"].as_u64()).collect()).unwrap_or_default();
                ans.sort();
                let mut mans: Vec<u64> = lk["model"]["answered"].as_array().map(|r| r.iter().filter_map(|q| q.as_u64()).collect()).unwrap_or_default();
                mans.sort();
                events.push(json!({"ev":"Model","cfg":li,"result":lk["result"],"mresult":lk["model"]["result"],"answered":ans,"manswered":mans,
                                   "hang":lk["hang"],"err":lk["err"]}));
            }
            c.shutdown().await;
            Ok(())
        });
        drop(rt);
        if let Err(e) = r {
            eprintln!("c01 replay: {e}");
            return 2;
        }
        for e in events {
            t.ev(e);
        }
        n_cfg += 1;
    }
    let n = t.finish();
    eprintln!("c01 replay: {n_cfg} configurations, {n} events");
    0
}
