//! Auto-upgrade on-disk state machines (specification growth): random operation sequences on a real
//! `RollbackManager` and a real `StagedUpdateManager` over a temp directory, interleaved with environment
//! steps (install / delete the binary or its directory, delete or overwrite files behind the manager's back, delete or garble
//! the metadata file, restart the manager with another configuration, let time pass). Every step logs the
//! projected directory before and after, the result, and what the manager's observers report afterwards.
//! File contents and checksums are interned as tokens, versions are "1.0.<n>", timestamps are seconds
//! relative to the segment's start. "d seconds pass" is realised by moving every persisted timestamp back
//! by d (created_at / staged_at in the metadata, the second in a backup's file name, mtimes of staged
//! files): the managers hold no instant in memory. A call that straddles a second boundary of the real
//! clock is logged as `Straddle` and not judged. Oracle: spec/Trace_Upgrade.tla. No expected values here.
use crate::common::{self, Args, Trace};
use rand::Rng;
use saorsa_core::upgrade::{
    BackupMetadata, Platform, RollbackManager, SignatureVerifier, StagedUpdate, StagedUpdateManager, StagedUpdateMetadata, UpgradeError,
};
use serde_json::{Value, json};
use std::panic::AssertUnwindSafe;
use std::path::{Path, PathBuf};
use std::time::{Duration, SystemTime, UNIX_EPOCH};

const NTOK: usize = 3;
const NVER: i64 = 3;
const PLAT: Platform = Platform::LinuxX64;

fn content(tok: usize) -> Vec<u8> {
    format!("saorsa binary image #{tok} {}", "x".repeat(tok * 7)).into_bytes()
}

struct Toks {
    sums: Vec<String>,
}

impl Toks {
    fn new() -> Self {
        Toks { sums: (1..=NTOK).map(|t| SignatureVerifier::calculate_checksum(&content(t))).collect() }
    }
    fn of_bytes(&self, b: &[u8]) -> i64 {
        (1..=NTOK).find(|t| content(*t) == b).map(|t| t as i64).unwrap_or(99)
    }
    fn of_file(&self, p: &Path) -> i64 {
        match std::fs::read(p) {
            Ok(b) => self.of_bytes(&b),
            Err(_) => 0,
        }
    }
    /// token of a recorded (checksum, size) pair
    fn of_sum(&self, sum: &str, size: u64) -> i64 {
        (1..=NTOK).find(|t| self.sums[*t - 1] == sum && content(*t).len() as u64 == size).map(|t| t as i64).unwrap_or(99)
    }
}

fn now_parts() -> (i64, u32) {
    let d = SystemTime::now().duration_since(UNIX_EPOCH).unwrap_or_default();
    (d.as_secs() as i64, d.subsec_millis())
}

/// Do not start a call in the last few hundredths of a second.
fn clear_of_boundary() -> i64 {
    loop {
        let (s, ms) = now_parts();
        if ms < 950 {
            return s;
        }
        std::thread::sleep(Duration::from_millis((1002 - ms) as u64));
    }
}

fn ver_str(v: i64) -> String {
    format!("1.0.{v}")
}

fn ver_of(s: &str) -> i64 {
    s.strip_prefix("1.0.").and_then(|n| n.parse::<i64>().ok()).unwrap_or(99)
}

fn err_class(e: &UpgradeError) -> &'static str {
    match e {
        UpgradeError::Io(_) => "io",
        UpgradeError::NoRollback(_) => "norollback",
        UpgradeError::Rollback(_) => "rollback",
        UpgradeError::Staging(_) => "staging",
        _ => "other",
    }
}

// ------------------------------------------------------------------ backup side

/// "saorsa-1.0.<n>-linux-x64-<ts>.bak" -> (n, ts)
fn parse_bak(name: &str) -> Option<(i64, i64)> {
    let rest = name.strip_prefix("saorsa-1.0.")?;
    let (n, rest) = rest.split_once('-')?;
    let rest = rest.strip_prefix("linux-x64-")?;
    let ts = rest.strip_suffix(".bak")?;
    Some((n.parse().ok()?, ts.parse().ok()?))
}

fn bak_name(v: i64, ts: i64) -> String {
    format!("saorsa-1.0.{v}-linux-x64-{ts}.bak")
}

struct BackupWorld {
    dir: PathBuf,
    inst: Vec<PathBuf>,
    base: i64,
    maxb: usize,
    maxage: u64,
}

impl BackupWorld {
    fn manager(&self) -> RollbackManager {
        RollbackManager::new(self.dir.clone()).with_max_age(Duration::from_secs(self.maxage)).with_max_backups(self.maxb)
    }
    fn meta_path(&self) -> PathBuf {
        self.dir.join("backups.json")
    }
    fn read_meta(&self) -> (i64, Vec<BackupMetadata>) {
        match std::fs::read_to_string(self.meta_path()) {
            Err(_) => (0, Vec::new()),
            Ok(s) => match serde_json::from_str::<Vec<BackupMetadata>>(&s) {
                Ok(v) => (1, v),
                Err(_) => (2, Vec::new()),
            },
        }
    }
    fn flat(&self, toks: &Toks, m: &BackupMetadata) -> Vec<i64> {
        let orig = self.inst.iter().position(|p| p.to_string_lossy() == m.original_path.as_str()).map(|i| i as i64 + 1).unwrap_or(99);
        let tok = if m.platform == "linux-x64" { toks.of_sum(&m.checksum, m.size) } else { 98 };
        vec![ver_of(&m.version), m.created_at as i64 - self.base, tok, orig]
    }
    fn project(&self, toks: &Toks) -> Value {
        let (mst, metas) = self.read_meta();
        let meta: Vec<Value> = metas
            .iter()
            .map(|m| {
                let mut f = self.flat(toks, m);
                let (fv, ft) = parse_bak(&m.backup_filename).map(|(v, ts)| (v, ts - self.base)).unwrap_or((99, 0));
                f.push(fv);
                f.push(ft);
                json!(f)
            })
            .collect();
        let mut files: Vec<Vec<i64>> = Vec::new();
        if let Ok(rd) = std::fs::read_dir(&self.dir) {
            for e in rd.flatten() {
                let name = e.file_name().to_string_lossy().to_string();
                if name == "backups.json" {
                    continue;
                }
                let (v, ts) = parse_bak(&name).map(|(v, ts)| (v, ts - self.base)).unwrap_or((99, 0));
                files.push(vec![v, ts, toks.of_file(&e.path())]);
            }
        }
        files.sort();
        // 0 = no binary, -1 = not even its directory
        let bins: Vec<i64> = self.inst.iter().map(|p| if p.parent().is_some_and(|d| d.is_dir()) { toks.of_file(p) } else { -1 }).collect();
        json!({"dir": self.dir.is_dir(), "mst": mst, "meta": meta, "files": files, "bins": bins, "maxb": self.maxb, "maxage": self.maxage})
    }
    /// d seconds pass
    fn age(&self, d: i64) {
        let mut names: Vec<(i64, i64)> = Vec::new();
        if let Ok(rd) = std::fs::read_dir(&self.dir) {
            for e in rd.flatten() {
                if let Some(k) = parse_bak(&e.file_name().to_string_lossy()) {
                    names.push(k);
                }
            }
        }
        names.sort_by_key(|k| k.1);
        for (v, ts) in names {
            let _ = std::fs::rename(self.dir.join(bak_name(v, ts)), self.dir.join(bak_name(v, ts - d)));
        }
        let (mst, mut metas) = self.read_meta();
        if mst == 1 {
            for m in metas.iter_mut() {
                m.created_at = (m.created_at as i64 - d) as u64;
                if let Some((v, ts)) = parse_bak(&m.backup_filename) {
                    m.backup_filename = bak_name(v, ts - d);
                }
            }
            if let Ok(s) = serde_json::to_string_pretty(&metas) {
                let _ = std::fs::write(self.meta_path(), s);
            }
        }
    }
}

fn res_entry(w: &BackupWorld, toks: &Toks, r: Result<BackupMetadata, UpgradeError>) -> Value {
    match r {
        Ok(m) => json!({"cls": "ok", "val": w.flat(toks, &m)}),
        Err(e) => json!({"cls": err_class(&e), "val": []}),
    }
}

fn res_entries(w: &BackupWorld, toks: &Toks, r: Result<Vec<BackupMetadata>, UpgradeError>) -> Value {
    match r {
        Ok(v) => json!({"cls": "ok", "val": v.iter().map(|m| w.flat(toks, m)).collect::<Vec<_>>()}),
        Err(e) => json!({"cls": err_class(&e), "val": []}),
    }
}

fn res_count<T: Into<i64>>(r: Result<T, UpgradeError>) -> Value {
    match r {
        Ok(n) => json!({"cls": "ok", "val": [n.into()]}),
        Err(e) => json!({"cls": err_class(&e), "val": []}),
    }
}

fn res_unit(r: Result<(), UpgradeError>) -> Value {
    match r {
        Ok(()) => json!({"cls": "ok", "val": []}),
        Err(e) => json!({"cls": err_class(&e), "val": []}),
    }
}

fn env_ok() -> Value {
    json!({"cls": "ok", "val": []})
}

/// One segment on a RollbackManager. Returns false if the code under test panicked.
fn backup_segment(t: &mut Trace, rng: &mut impl Rng, toks: &Toks, ops: u64, counts: &mut (u64, u64)) -> bool {
    let tmp = match tempfile::tempdir() {
        Ok(d) => d,
        Err(e) => {
            eprintln!("tempdir: {e}");
            std::process::exit(2)
        }
    };
    let rt = common::rt();
    let mut w = BackupWorld {
        dir: tmp.path().join("backups"),
        inst: vec![tmp.path().join("inst1").join("saorsa"), tmp.path().join("inst2").join("saorsa")],
        base: now_parts().0,
        maxb: rng.gen_range(1..=3),
        maxage: rng.gen_range(1..=3),
    };
    for p in &w.inst {
        let _ = std::fs::create_dir_all(p.parent().unwrap_or(tmp.path()));
        let tok = if rng.gen_range(0..6) == 0 { 0 } else { rng.gen_range(1..=NTOK) };
        if tok > 0 {
            let _ = std::fs::write(p, content(tok));
        }
    }
    let mut mgr = w.manager();
    t.ev(json!({"ev":"Reset","side":"b"}));
    for _ in 0..ops {
        let pre = w.project(toks);
        let p = rng.gen_range(1..=w.inst.len());
        // a version: mostly one that the metadata knows, sometimes any
        let known: Vec<i64> = w.read_meta().1.iter().map(|m| ver_of(&m.version)).filter(|v| (1..=NVER).contains(v)).collect();
        let v = if !known.is_empty() && rng.gen_range(0..10) < 6 { known[rng.gen_range(0..known.len())] } else { rng.gen_range(1..=NVER) };
        let tok = if rng.gen_range(0..7) == 0 { 0 } else { rng.gen_range(1..=NTOK) };
        let d = rng.gen_range(1..=3i64);
        let mb = rng.gen_range(1..=3usize);
        let ma = rng.gen_range(1..=3u64);
        // an existing backup file (for the environment steps)
        let victim: Option<(i64, i64)> = {
            let mut names: Vec<(i64, i64)> = std::fs::read_dir(&w.dir)
                .map(|rd| rd.flatten().filter_map(|e| parse_bak(&e.file_name().to_string_lossy())).collect())
                .unwrap_or_default();
            names.sort();
            if names.is_empty() { None } else { Some(names[rng.gen_range(0..names.len())]) }
        };
        let (fv, fat) = victim.map(|(v, ts)| (v, ts - w.base)).unwrap_or((0, 0));
        // while an install directory is missing, restoring is what is interesting
        let dir_missing = w.inst.iter().any(|p| !p.parent().is_some_and(|d| d.is_dir()));
        let choice = if dir_missing && rng.gen_range(0..10) < 4 { rng.gen_range(20..=35) } else { rng.gen_range(0..100) };
        let t0 = clear_of_boundary();
        let ran = common::catch(AssertUnwindSafe(|| -> (&'static str, Value) {
            match choice {
                0..=19 => ("create_backup", res_entry(&w, toks, rt.block_on(mgr.create_backup(&w.inst[p - 1], &ver_str(v), PLAT)))),
                20..=28 => ("rollback", res_entry(&w, toks, rt.block_on(mgr.rollback()))),
                29..=35 => ("rollback_to_version", res_entry(&w, toks, rt.block_on(mgr.rollback_to_version(&ver_str(v))))),
                36..=40 => ("delete_backup", res_count(rt.block_on(mgr.delete_backup(&ver_str(v))).map(|b| b as i64))),
                41..=50 => ("cleanup_old_backups", res_count(rt.block_on(mgr.cleanup_old_backups()).map(|n| n as i64))),
                51 => ("cleanup_all", res_unit(rt.block_on(mgr.cleanup_all()))),
                52..=54 => ("get_backup_for_version", res_entries(&w, toks, rt.block_on(mgr.get_backup_for_version(&ver_str(v))).map(|o| o.into_iter().collect()))),
                55 => ("load_metadata", res_entries(&w, toks, rt.block_on(mgr.load_metadata()))),
                56..=57 => ("ensure_backup_dir", res_unit(rt.block_on(mgr.ensure_backup_dir()))),
                58..=64 => {
                    let path = &w.inst[p - 1];
                    if tok == 0 {
                        let _ = std::fs::remove_file(path);
                    } else {
                        if let Some(d) = path.parent() {
                            let _ = std::fs::create_dir_all(d);
                        }
                        let _ = std::fs::write(path, content(tok));
                    }
                    ("env_set_binary", env_ok())
                }
                65..=68 => {
                    if let Some(d) = w.inst[p - 1].parent() {
                        let _ = std::fs::remove_dir_all(d);
                    }
                    ("env_remove_install_dir", env_ok())
                }
                69..=73 => {
                    if let Some((v, ts)) = victim {
                        let _ = std::fs::remove_file(w.dir.join(bak_name(v, ts)));
                    }
                    ("env_delete_file", env_ok())
                }
                74..=77 => {
                    if let Some((v, ts)) = victim {
                        let _ = std::fs::write(w.dir.join(bak_name(v, ts)), content(tok.max(1)));
                    }
                    ("env_corrupt_file", env_ok())
                }
                78..=79 => {
                    let _ = std::fs::remove_file(w.meta_path());
                    ("env_delete_meta", env_ok())
                }
                80..=81 => {
                    if w.dir.is_dir() {
                        let _ = std::fs::write(w.meta_path(), b"[{\"version\": \"1.0.1\", \"created_");
                    }
                    ("env_garble_meta", env_ok())
                }
                82..=87 => {
                    w.maxb = mb;
                    w.maxage = ma;
                    mgr = w.manager();
                    ("restart", env_ok())
                }
                _ => {
                    w.age(d);
                    ("age", env_ok())
                }
            }
        }));
        let t1 = now_parts().0;
        let (op, res) = match ran {
            Ok(x) => x,
            Err(msg) => {
                t.ev(json!({"ev":"Panic","side":"b","msg":msg}));
                eprintln!("PANIC upgrade drive (backup side): {msg}");
                return false;
            }
        };
        if t0 != t1 {
            counts.1 += 1;
            t.ev(json!({"ev":"Straddle","side":"b","op":op}));
            continue;
        }
        let post = w.project(toks);
        let observed = common::catch(AssertUnwindSafe(|| {
            json!({
                "list": res_entries(&w, toks, rt.block_on(mgr.list_backups())),
                "latest": res_entries(&w, toks, rt.block_on(mgr.get_latest_backup()).map(|o| o.into_iter().collect())),
                "can": rt.block_on(mgr.can_rollback()) as i64,
            })
        }));
        let obs = match observed {
            Ok(o) => o,
            Err(msg) => {
                t.ev(json!({"ev":"Panic","side":"b","msg":msg}));
                eprintln!("PANIC upgrade drive (backup observers): {msg}");
                return false;
            }
        };
        counts.0 += 1;
        t.ev(json!({"ev":"Step","side":"b","op":op,"p":p,"v":v,"tok":tok.max(if op == "env_corrupt_file" { 1 } else { 0 }),"d":d,"mb":w.maxb,"ma":w.maxage,
                    "fv":fv,"fat":fat,"now":t0 - w.base,"pre":pre,"post":post,"res":res,"obs":obs}));
    }
    true
}

// ------------------------------------------------------------------ staging side

/// "saorsa-1.0.<n>-linux-x64" -> n
fn parse_staged(name: &str) -> Option<i64> {
    name.strip_prefix("saorsa-1.0.")?.strip_suffix("-linux-x64")?.parse().ok()
}

fn set_mtime(p: &Path, secs: i64) {
    if let Ok(f) = std::fs::File::options().write(true).open(p) {
        let _ = f.set_modified(UNIX_EPOCH + Duration::from_secs(secs.max(0) as u64));
    }
}

struct StageWorld {
    dir: PathBuf,
    base: i64,
    maxage: u64,
}

impl StageWorld {
    fn manager(&self) -> StagedUpdateManager {
        StagedUpdateManager::new(self.dir.clone()).with_max_age(Duration::from_secs(self.maxage))
    }
    fn meta_path(&self) -> PathBuf {
        self.dir.join("staged.json")
    }
    fn read_meta(&self) -> (i64, Option<StagedUpdateMetadata>) {
        match std::fs::read_to_string(self.meta_path()) {
            Err(_) => (0, None),
            Ok(s) => match serde_json::from_str::<StagedUpdateMetadata>(&s) {
                Ok(m) if m.platform == "linux-x64" => (1, Some(m)),
                _ => (2, None),
            },
        }
    }
    fn project(&self, toks: &Toks) -> Value {
        let (mst, m) = self.read_meta();
        let rec: Vec<Vec<i64>> = m
            .iter()
            .map(|m| {
                let v = ver_of(&m.version);
                let v = if parse_staged(&m.binary_filename) == Some(v) { v } else { 99 };
                vec![v, toks.of_sum(&m.checksum, m.size), m.staged_at as i64 - self.base]
            })
            .collect();
        let mut files: Vec<Vec<i64>> = Vec::new();
        if let Ok(rd) = std::fs::read_dir(&self.dir) {
            for e in rd.flatten() {
                let name = e.file_name().to_string_lossy().to_string();
                if name == "staged.json" {
                    continue;
                }
                let mt = e
                    .metadata()
                    .ok()
                    .and_then(|md| md.modified().ok())
                    .and_then(|m| m.duration_since(UNIX_EPOCH).ok())
                    .map(|d| if d.subsec_nanos() == 0 { d.as_secs() as i64 - self.base } else { 9999 })
                    .unwrap_or(9998);
                files.push(vec![parse_staged(&name).unwrap_or(99), toks.of_file(&e.path()), mt]);
            }
        }
        files.sort();
        json!({"dir": self.dir.is_dir(), "mst": mst, "rec": rec, "files": files, "maxage": self.maxage})
    }
    fn age(&self, d: i64) {
        if let Ok(rd) = std::fs::read_dir(&self.dir) {
            for e in rd.flatten() {
                if e.file_name() == "staged.json" {
                    continue;
                }
                if let Some(s) = e.metadata().ok().and_then(|md| md.modified().ok()).and_then(|m| m.duration_since(UNIX_EPOCH).ok()) {
                    set_mtime(&e.path(), s.as_secs() as i64 - d);
                }
            }
        }
        if let (1, Some(mut m)) = self.read_meta() {
            m.staged_at = (m.staged_at as i64 - d) as u64;
            if let Ok(s) = serde_json::to_string_pretty(&m) {
                let _ = std::fs::write(self.meta_path(), s);
            }
        }
    }
}

fn flat_staged(w: &StageWorld, toks: &Toks, s: &StagedUpdate) -> Vec<i64> {
    let v = ver_of(&s.version);
    let named = s.binary_path.file_name().and_then(|n| n.to_str()).and_then(parse_staged);
    let v = if named == Some(v) && s.binary_path.parent() == Some(w.dir.as_path()) && s.platform == PLAT { v } else { 99 };
    vec![v, toks.of_sum(&s.checksum, s.size), s.staged_at as i64 - w.base]
}

fn stage_segment(t: &mut Trace, rng: &mut impl Rng, toks: &Toks, ops: u64, counts: &mut (u64, u64)) -> bool {
    let tmp = match tempfile::tempdir() {
        Ok(d) => d,
        Err(e) => {
            eprintln!("tempdir: {e}");
            std::process::exit(2)
        }
    };
    let rt = common::rt();
    let mut w = StageWorld { dir: tmp.path().join("staging"), base: now_parts().0, maxage: rng.gen_range(1..=3) };
    let mut mgr = w.manager();
    t.ev(json!({"ev":"Reset","side":"g"}));
    for _ in 0..ops {
        let pre = w.project(toks);
        let v = rng.gen_range(1..=NVER);
        let tok = rng.gen_range(1..=NTOK);
        let d = rng.gen_range(1..=3i64);
        let ma = rng.gen_range(1..=3u64);
        let choice = rng.gen_range(0..100);
        let t0 = clear_of_boundary();
        let ran = common::catch(AssertUnwindSafe(|| -> (&'static str, Value) {
            match choice {
                0..=2 => ("ensure_staging_dir", res_unit(rt.block_on(mgr.ensure_staging_dir()))),
                3..=15 => {
                    let c = content(tok);
                    let s = StagedUpdate::new(ver_str(v), mgr.staged_binary_path(&ver_str(v), PLAT), PLAT, toks.sums[tok - 1].clone(), c.len() as u64);
                    ("save_metadata", res_unit(rt.block_on(mgr.save_metadata(&s))))
                }
                16..=28 => {
                    let r = rt.block_on(mgr.get_staged_update());
                    let res = match r {
                        Ok(None) => json!({"cls": "ok", "val": []}),
                        Ok(Some(s)) => {
                            let mut f = flat_staged(&w, toks, &s);
                            f.push(match rt.block_on(s.verify()) {
                                Ok(true) => 1,
                                Ok(false) => 0,
                                Err(_) => -1,
                            });
                            json!({"cls": "ok", "val": f})
                        }
                        Err(e) => json!({"cls": err_class(&e), "val": []}),
                    };
                    ("get_staged_update", res)
                }
                29..=31 => ("clear_metadata", res_unit(rt.block_on(mgr.clear_metadata()))),
                32..=47 => ("cleanup_old_updates", res_count(rt.block_on(mgr.cleanup_old_updates()).map(|n| n as i64))),
                48 => ("cleanup_all", res_unit(rt.block_on(mgr.cleanup_all()))),
                49..=64 => {
                    // the downloader: a binary appears (or is overwritten) at the path the manager names
                    let _ = std::fs::create_dir_all(&w.dir);
                    let path = mgr.staged_binary_path(&ver_str(v), PLAT);
                    let _ = std::fs::write(&path, content(tok));
                    set_mtime(&path, now_parts().0);
                    ("env_put_file", env_ok())
                }
                65..=69 => {
                    let _ = std::fs::remove_file(mgr.staged_binary_path(&ver_str(v), PLAT));
                    ("env_delete_file", env_ok())
                }
                70..=71 => {
                    let _ = std::fs::remove_file(w.meta_path());
                    ("env_delete_meta", env_ok())
                }
                72..=73 => {
                    if w.dir.is_dir() {
                        let _ = std::fs::write(w.meta_path(), b"{\"version\": \"1.0.1\", \"binary_");
                    }
                    ("env_garble_meta", env_ok())
                }
                74..=78 => {
                    w.maxage = ma;
                    mgr = w.manager();
                    ("restart", env_ok())
                }
                _ => {
                    w.age(d);
                    ("age", env_ok())
                }
            }
        }));
        let t1 = now_parts().0;
        let (op, res) = match ran {
            Ok(x) => x,
            Err(msg) => {
                t.ev(json!({"ev":"Panic","side":"g","msg":msg}));
                eprintln!("PANIC upgrade drive (staging side): {msg}");
                return false;
            }
        };
        if t0 != t1 {
            counts.1 += 1;
            t.ev(json!({"ev":"Straddle","side":"g","op":op}));
            continue;
        }
        let post = w.project(toks);
        let observed = common::catch(AssertUnwindSafe(|| {
            let load = match rt.block_on(mgr.load_metadata()) {
                Ok(None) => json!({"cls": "ok", "val": []}),
                Ok(Some(s)) => json!({"cls": "ok", "val": flat_staged(&w, toks, &s)}),
                Err(e) => json!({"cls": err_class(&e), "val": []}),
            };
            json!({"has": rt.block_on(mgr.has_staged_update()) as i64, "load": load})
        }));
        let obs = match observed {
            Ok(o) => o,
            Err(msg) => {
                t.ev(json!({"ev":"Panic","side":"g","msg":msg}));
                eprintln!("PANIC upgrade drive (staging observers): {msg}");
                return false;
            }
        };
        counts.0 += 1;
        t.ev(json!({"ev":"Step","side":"g","op":op,"p":0,"v":v,"tok":tok,"d":d,"mb":0,"ma":w.maxage,"fv":0,"fat":0,
                    "now":t0 - w.base,"pre":pre,"post":post,"res":res,"obs":obs}));
    }
    true
}

pub fn drive(a: &Args) -> i32 {
    let out = a.str("out", "/dev/stdout");
    let segments = a.num("segments", 80);
    let ops = a.num("ops", 30);
    let mut t = Trace::create(&out);
    let mut rng = common::rng(61);
    let toks = Toks::new();
    common::quiet_panics();
    let mut counts = (0u64, 0u64);
    let mut panicked = false;
    for seg in 0..segments {
        let ok = if seg % 2 == 0 { backup_segment(&mut t, &mut rng, &toks, ops, &mut counts) } else { stage_segment(&mut t, &mut rng, &toks, ops, &mut counts) };
        panicked |= !ok;
    }
    let n = t.finish();
    eprintln!("upgrade drive: {n} events, {} steps, {} straddled a second boundary", counts.0, counts.1);
    if panicked { 3 } else { 0 }
}
