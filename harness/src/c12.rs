//! C12 driver: the real MonotonicCounterSystem under (a) sequential random histories with
//! batches, duplicates, gaps, u64 extremes, stale / future timestamps, sync + reopen, and
//! (b) concurrent submitters on a multi-thread runtime whose call/return intervals are ordered
//! by a global ticket.  Oracles: spec/Trace_Counter.tla (a) and spec/Trace_CounterConc.tla (b).
//!
//! Trusted base of this file: `proj` (order- and successor-preserving map of u64 sequence
//! numbers into 31-bit model integers), the timestamp class labels (see `pick_ts`), and the
//! ticket order.  No expected result is computed here.
use crate::common::{self, Args, Trace};
use futures::FutureExt;
use rand::Rng;
use saorsa_core::monotonic_counter::{
    BatchUpdateRequest, MonotonicCounterSystem, PeerCounter, SequenceValidationResult,
};
use saorsa_core::peer_record::UserId;
use serde_json::{Value, json};
use std::collections::HashMap;
use std::sync::atomic::{AtomicU64, Ordering};
use std::sync::{Arc, Mutex};
use std::time::{Duration, SystemTime, UNIX_EPOCH};

const LOW: u64 = 1 << 28;

/// u64 -> model integer: x < 2^28 is itself; the top 2^28 values are mapped just below 2^30
/// (u64::MAX -> 2^30); everything between is the single token 2^29.  Monotone, and `+1` is
/// preserved inside the low and the high range (the driver never lets a mark enter the middle).
fn proj(x: u64) -> i64 {
    if x < LOW {
        x as i64
    } else if x >= u64::MAX - LOW {
        (1i64 << 30) - (u64::MAX - x) as i64
    } else {
        1i64 << 29
    }
}

fn res_name(r: &SequenceValidationResult) -> &'static str {
    match r {
        SequenceValidationResult::Valid => "Valid",
        SequenceValidationResult::Replay => "Replay",
        SequenceValidationResult::TooOld => "TooOld",
        SequenceValidationResult::Gap { .. } => "Gap",
        SequenceValidationResult::FromFuture => "FromFuture",
    }
}

fn now() -> u64 {
    SystemTime::now().duration_since(UNIX_EPOCH).map(|d| d.as_secs()).unwrap_or(0)
}

/// Timestamp for a batch request and its class label.  "ok" = within 5 s of the clock,
/// "future" = at least a day ahead, "old" = at least 30 days back; everything between is an
/// "edge" class for which the acceptor allows both readings (the property names no thresholds).
fn pick_ts(rng: &mut impl Rng) -> (u64, &'static str) {
    let nb = now();
    match rng.gen_range(0..100) {
        0..=59 => (nb + rng.gen_range(0..=5) - rng.gen_range(0..=5), "ok"),
        60..=63 => (nb + 86_400 * rng.gen_range(1..40), "future"),
        64..=67 => (u64::MAX - rng.gen_range(0..3), "future"),
        68..=71 => (nb - 86_400 * rng.gen_range(30..400), "old"),
        72..=75 => (rng.gen_range(0..3), "old"),
        76..=87 => (nb + [55u64, 59, 60, 61, 62, 65, 120, 3600][rng.gen_range(0..8)], "edgeF"),
        _ => (nb - [3590u64, 3599, 3600, 3601, 3605, 7200, 86_400][rng.gen_range(0..7)], "edgeO"),
    }
}

fn pick_seq(rng: &mut impl Rng, cur: u64) -> u64 {
    if cur == u64::MAX {
        return u64::MAX; // only the very same (number, hash) is resubmitted at the top (see report)
    }
    let c = match rng.gen_range(0..100) {
        0..=41 => cur.checked_add(1),
        42..=53 => Some(rng.gen_range(cur.saturating_sub(20)..=cur)),
        54..=61 => Some(cur),
        62..=71 => cur.checked_add(2),
        72..=76 => cur.checked_add(rng.gen_range(2..50)),
        77..=80 => Some(0),
        81..=84 => Some(1),
        85..=89 => Some(u64::MAX),
        90..=92 => Some(u64::MAX - 1),
        93..=95 => Some(rng.gen_range(LOW * 4..u64::MAX / 2)),
        _ => Some(cur.saturating_sub(1)),
    };
    c.unwrap_or(u64::MAX)
}

struct Seq {
    sys: Option<MonotonicCounterSystem>,
    path: std::path::PathBuf,
    peers: Vec<UserId>,
    hashes: Vec<[u8; 32]>,
}

impl Seq {
    async fn open(&mut self, t: &mut Trace) -> bool {
        match MonotonicCounterSystem::new_with_sync_interval(self.path.clone(), Duration::from_secs(3600)).await {
            Ok(s) => {
                self.sys = Some(s);
                true
            }
            Err(e) => {
                t.ev(json!({"ev":"Err","via":"reopen","err":e.to_string()}));
                false
            }
        }
    }
    async fn cur(&self, p: usize) -> u64 {
        match self.sys.as_ref() {
            Some(s) => s.get_peer_counter(&self.peers[p]).await.map(|c| c.last_valid_sequence).unwrap_or(0),
            None => 0,
        }
    }
    async fn obs(&self, t: &mut Trace, p: usize) {
        let v = self.cur(p).await;
        t.ev(json!({"ev":"Obs","p":p+1,"v":proj(v)}));
    }
    /// One persistence cycle through the public API: the background task syncs once immediately
    /// (first tick of its interval), the counter `persistence_ops` tells when that write is complete.
    async fn sync(&mut self, t: &mut Trace) {
        let Some(sys) = self.sys.as_mut() else { return };
        let c0 = sys.get_stats().await.persistence_ops;
        let _ = sys.start_sync_task().await;
        let mut ok = false;
        for _ in 0..5000 {
            tokio::time::sleep(Duration::from_millis(1)).await;
            if sys.get_stats().await.persistence_ops > c0 {
                ok = true;
                break;
            }
        }
        sys.stop_sync_task().await;
        t.ev(json!({"ev":"Sync","ok":ok}));
    }
    async fn reload(&mut self, t: &mut Trace) -> bool {
        if let Some(mut s) = self.sys.take() {
            s.stop_sync_task().await;
            drop(s);
        }
        if !self.open(t).await {
            return false;
        }
        let mut obs = Vec::new();
        for p in 0..self.peers.len() {
            obs.push(proj(self.cur(p).await));
        }
        t.ev(json!({"ev":"Reload","obs":obs}));
        true
    }
}

async fn submit_single(q: &Seq, t: &mut Trace, p: usize, s: u64, h: [u8; 32]) {
    let sys = q.sys.as_ref().expect("open");
    let uid = q.peers[p].clone();
    match std::panic::AssertUnwindSafe(sys.validate_sequence(&uid, s, h)).catch_unwind().await {
        Ok(Ok(r)) => t.ev(json!({"ev":"Submit","via":"validate_sequence","p":p+1,"s":proj(s),"ts":"ok",
                             "res":res_name(&r),"applied":matches!(r, SequenceValidationResult::Valid)})),
        Ok(Err(e)) => t.ev(json!({"ev":"Err","via":"validate_sequence","err":e.to_string()})),
        Err(_) => t.ev(json!({"ev":"Panic","via":"validate_sequence","p":p+1,"s":proj(s)})),
    }
}

pub fn drive(a: &Args) -> i32 {
    let out = a.str("out", "/dev/stdout");
    let segments = a.num("segments", 20);
    let ops = a.num("ops", 60);
    let long = a.num("long", 1100);
    let mut t = Trace::create(&out);
    let mut rng = common::rng(12);
    let rt = tokio::runtime::Builder::new_multi_thread().worker_threads(2).enable_all().build().expect("rt");
    let tmp = tempfile::tempdir().expect("tempdir");
    common::quiet_panics();
    rt.block_on(async {
        for seg in 0..segments {
            let kind = seg % 6; // 0..3 random, 4 preloaded extremes, 5 long history
            let np = rng.gen_range(1..=4usize);
            let peers: Vec<UserId> = (0..np).map(|_| UserId::from_bytes(rng.r#gen())).collect();
            let hashes: Vec<[u8; 32]> = (0..3).map(|_| rng.r#gen()).collect();
            let path = tmp.path().join(format!("seg{seg}")).join("counters.bin");
            let mut q = Seq { sys: None, path: path.clone(), peers, hashes };
            t.ev(json!({"ev":"Reset","np":np,"kind":kind}));
            if kind == 4 {
                // file written with the library's own serialisable types: marks close to u64::MAX
                let mut m: HashMap<UserId, PeerCounter> = HashMap::new();
                let mut pre = Vec::new();
                for p in 0..np {
                    let v = u64::MAX - rng.gen_range(1..6);
                    let mut c = PeerCounter::new();
                    c.current_sequence = v;
                    c.last_valid_sequence = v;
                    m.insert(q.peers[p].clone(), c);
                    pre.push(v);
                }
                std::fs::create_dir_all(path.parent().expect("parent")).expect("mkdir");
                std::fs::write(&path, postcard::to_stdvec(&m).expect("postcard")).expect("write");
                if !q.open(&mut t).await {
                    continue;
                }
                for (p, v) in pre.iter().enumerate() {
                    t.ev(json!({"ev":"Preload","p":p+1,"v":proj(*v)}));
                }
            } else if !q.open(&mut t).await {
                continue;
            }
            if kind == 2 {
                // a peer whose every accepted message carries an almost one hour old timestamp: once they have crossed the
                // hour, the in-memory clean-up of old sequence records must not make the store forget the peer's mark
                let k = rng.gen_range(1..=3u64);
                let ts = now() - 3598;
                let reqs: Vec<BatchUpdateRequest> = (1..=k)
                    .map(|s| BatchUpdateRequest { user_id: q.peers[0].clone(), sequence: s, message_hash: q.hashes[0], timestamp: ts })
                    .collect();
                let sys = q.sys.as_ref().expect("open");
                if let Ok(Ok(rs)) = std::panic::AssertUnwindSafe(sys.batch_update(reqs)).catch_unwind().await {
                    for (i, r) in rs.iter().enumerate() {
                        t.ev(json!({"ev":"Submit","via":"batch_update","i":i,"p":1,"s":proj(i as u64 + 1),"ts":"edgeO",
                                    "res":res_name(&r.result),"applied":r.applied}));
                    }
                }
                q.obs(&mut t, 0).await;
                tokio::time::sleep(Duration::from_millis(3200)).await;
                if let Some(s) = q.sys.as_ref() {
                    let _ = s.cleanup_old_sequences().await;
                }
                t.ev(json!({"ev":"Cleanup"}));
                q.obs(&mut t, 0).await;
                submit_single(&q, &mut t, 0, 1, q.hashes[1]).await;
                q.obs(&mut t, 0).await;
                submit_single(&q, &mut t, 0, k, q.hashes[0]).await;
                q.obs(&mut t, 0).await;
            }
            if kind == 5 {
                // more accepted numbers than the per-peer history keeps (1000): old numbers must stay rejected
                for s in 1..=long {
                    submit_single(&q, &mut t, 0, s, q.hashes[0]).await;
                }
                q.obs(&mut t, 0).await;
            }
            for _ in 0..ops {
                let p = rng.gen_range(0..np);
                let cur = q.cur(p).await;
                let top = cur == u64::MAX;
                match rng.gen_range(0..100) {
                    0..=54 => {
                        let s = if kind == 5 && rng.gen_bool(0.5) { rng.gen_range(0..=120) } else { pick_seq(&mut rng, cur) };
                        let h = if top || s == u64::MAX { q.hashes[0] } else { q.hashes[rng.gen_range(0..3)] };
                        submit_single(&q, &mut t, p, s, h).await;
                        q.obs(&mut t, p).await;
                    }
                    55..=79 => {
                        // batch: several requests, repeats and mixed peers; the driver follows the marks it
                        // expects only to pick interesting numbers (inputs, not verdicts)
                        let k = rng.gen_range(1..=5);
                        let mut guess: Vec<u64> = Vec::new();
                        for pp in 0..np {
                            guess.push(q.cur(pp).await);
                        }
                        let mut reqs = Vec::new();
                        let mut meta = Vec::new();
                        for _ in 0..k {
                            let pp = if rng.gen_bool(0.6) { p } else { rng.gen_range(0..np) };
                            let (ts, cls) = pick_ts(&mut rng);
                            let s = pick_seq(&mut rng, guess[pp]);
                            let h = if guess[pp] == u64::MAX || s == u64::MAX { q.hashes[0] } else { q.hashes[rng.gen_range(0..3)] };
                            if cls == "ok" && guess[pp].checked_add(1) == Some(s) {
                                guess[pp] = s;
                            }
                            if (cls == "edgeF" || cls == "edgeO") && guess[pp].checked_add(1) == Some(s) {
                                // outcome unknown to the driver: stop guessing for this peer, but never at the top
                                if s == u64::MAX { continue; }
                            }
                            reqs.push(BatchUpdateRequest { user_id: q.peers[pp].clone(), sequence: s, message_hash: h, timestamp: ts });
                            meta.push((pp, s, cls));
                        }
                        let sys = q.sys.as_ref().expect("open");
                        match std::panic::AssertUnwindSafe(sys.batch_update(reqs)).catch_unwind().await {
                            Err(_) => t.ev(json!({"ev":"Panic","via":"batch_update"})),
                            Ok(Err(e)) => t.ev(json!({"ev":"Err","via":"batch_update","err":e.to_string()})),
                            Ok(Ok(rs)) => {
                                if rs.len() != meta.len() {
                                    t.ev(json!({"ev":"Err","via":"batch_update","err":"result count differs from request count"}));
                                }
                                for (i, r) in rs.iter().enumerate().take(meta.len()) {
                                    let (pp, s, cls) = meta[i];
                                    t.ev(json!({"ev":"Submit","via":"batch_update","i":i,"p":pp+1,"s":proj(s),"ts":cls,
                                                "res":res_name(&r.result),"applied":r.applied}));
                                }
                            }
                        }
                        for pp in 0..np {
                            q.obs(&mut t, pp).await;
                        }
                    }
                    80..=81 if kind == 2 && !top => {
                        // an accepted message whose timestamp is almost an hour old, persisted, then reloaded after it
                        // has crossed the hour: the reloaded store must still refuse that peer's old numbers
                        let s = cur + 1;
                        let ts = now() - 3598;
                        let reqs = vec![BatchUpdateRequest { user_id: q.peers[p].clone(), sequence: s, message_hash: q.hashes[0], timestamp: ts }];
                        let sys = q.sys.as_ref().expect("open");
                        if let Ok(Ok(rs)) = std::panic::AssertUnwindSafe(sys.batch_update(reqs)).catch_unwind().await
                            && let Some(r) = rs.first()
                        {
                            t.ev(json!({"ev":"Submit","via":"batch_update","i":0,"p":p+1,"s":proj(s),"ts":"edgeO",
                                        "res":res_name(&r.result),"applied":r.applied}));
                        }
                        q.obs(&mut t, p).await;
                        q.sync(&mut t).await;
                        tokio::time::sleep(Duration::from_millis(3200)).await;
                        if !q.reload(&mut t).await {
                            break;
                        }
                        submit_single(&q, &mut t, p, 1, q.hashes[1]).await;
                        q.obs(&mut t, p).await;
                        submit_single(&q, &mut t, p, s, q.hashes[0]).await;
                        q.obs(&mut t, p).await;
                    }
                    80..=87 => q.sync(&mut t).await,
                    88..=95 => {
                        if rng.gen_bool(0.5) {
                            q.sync(&mut t).await;
                        }
                        if !q.reload(&mut t).await {
                            break;
                        }
                    }
                    _ => {
                        if let Some(s) = q.sys.as_ref() {
                            let _ = s.cleanup_old_sequences().await;
                        }
                        t.ev(json!({"ev":"Cleanup"}));
                        q.obs(&mut t, p).await;
                    }
                }
            }
        }
    });
    let n = t.finish();
    eprintln!("c12 drive: {n} events");
    0
}

// ------------------------------------------------------------------------------------------
// concurrent submitters
// ------------------------------------------------------------------------------------------
static TICKET: AtomicU64 = AtomicU64::new(1);
fn ticket() -> u64 {
    TICKET.fetch_add(1, Ordering::SeqCst)
}

struct CallRec {
    tk: u64,
    via: &'static str,
    reqs: Vec<Value>,
    ret: Option<(u64, Vec<&'static str>)>,
}

pub fn conc(a: &Args) -> i32 {
    let out = a.str("out", "/dev/stdout");
    let segments = a.num("segments", 40);
    let calls = a.num("calls", 12);
    let mut t = Trace::create(&out);
    let mut rng = common::rng(13);
    let rt = tokio::runtime::Builder::new_multi_thread().worker_threads(8).enable_all().build().expect("rt");
    let tmp = tempfile::tempdir().expect("tempdir");
    common::quiet_panics();
    rt.block_on(async {
        for seg in 0..segments {
            let nt = rng.gen_range(2..=6usize);
            let np = rng.gen_range(1..=3usize);
            let pattern = [0, 1, 0, 2][(seg % 4) as usize];
            let peers: Arc<Vec<UserId>> = Arc::new((0..np).map(|_| UserId::from_bytes(rng.r#gen())).collect());
            let path = tmp.path().join(format!("c{seg}")).join("counters.bin");
            let sys = match MonotonicCounterSystem::new_with_sync_interval(path, Duration::from_secs(3600)).await {
                Ok(s) => Arc::new(s),
                Err(e) => {
                    eprintln!("open: {e}");
                    std::process::exit(2)
                }
            };
            t.ev(json!({"ev":"Reset","np":np,"nt":nt,"pattern":pattern}));
            let logs: Vec<Arc<Mutex<Vec<CallRec>>>> = (0..nt).map(|_| Arc::new(Mutex::new(Vec::new()))).collect();
            let barrier = Arc::new(tokio::sync::Barrier::new(nt));
            let mut handles = Vec::new();
            for ti in 0..nt {
                let sys = sys.clone();
                let peers = peers.clone();
                let log = logs[ti].clone();
                let barrier = barrier.clone();
                let mut r = common::rng(1000 + seg * 64 + ti as u64);
                handles.push(tokio::spawn(async move {
                    let h: [u8; 32] = [ti as u8; 32];
                    barrier.wait().await;
                    for k in 0..calls {
                        // choose the requests of this call
                        let mut reqs: Vec<(usize, u64, u64, &'static str)> = Vec::new();
                        let nb = now();
                        match pattern {
                            0 => {
                                // every task walks the same stream 1,2,3,... for every peer
                                let p = (k as usize) % peers.len();
                                reqs.push((p, k / peers.len() as u64 + 1, nb, "ok"));
                            }
                            1 => {
                                let p = r.gen_range(0..peers.len());
                                let cur = sys.get_peer_counter(&peers[p]).await.map(|c| c.last_valid_sequence).unwrap_or(0);
                                let s = match r.gen_range(0..10) { 0..=5 => cur + 1, 6 => cur, 7 => cur + 2, 8 => cur.saturating_sub(1), _ => 0 };
                                reqs.push((p, s, nb, "ok"));
                            }
                            _ => {
                                let n = r.gen_range(2..=4);
                                let p0 = r.gen_range(0..peers.len());
                                let cur = sys.get_peer_counter(&peers[p0]).await.map(|c| c.last_valid_sequence).unwrap_or(0);
                                let mut nx = cur + 1;
                                for _ in 0..n {
                                    let p = if r.gen_bool(0.8) { p0 } else { r.gen_range(0..peers.len()) };
                                    let (ts, cls) = match r.gen_range(0..10) { 0 => (nb + 86_400 * 3, "future"), 1 => (nb - 86_400 * 90, "old"), _ => (nb, "ok") };
                                    let s = match r.gen_range(0..6) { 0..=2 => { nx += 1; nx - 1 } 3 => nx.saturating_sub(1), 4 => nx + 1, _ => cur };
                                    reqs.push((p, s, ts, cls));
                                }
                            }
                        }
                        let single = pattern != 2 && reqs.len() == 1 && r.gen_bool(0.8);
                        let jr: Vec<Value> = reqs.iter().map(|(p, s, _, cls)| json!({"p":p+1,"s":proj(*s),"ts":cls})).collect();
                        let tk = ticket();
                        log.lock().expect("log").push(CallRec { tk, via: if single { "validate_sequence" } else { "batch_update" }, reqs: jr, ret: None });
                        let res: Vec<&'static str> = if single {
                            let (p, s, _, _) = reqs[0];
                            match sys.validate_sequence(&peers[p], s, h).await {
                                Ok(x) => vec![res_name(&x)],
                                Err(_) => vec!["Err"],
                            }
                        } else {
                            let b: Vec<BatchUpdateRequest> = reqs.iter().map(|(p, s, ts, _)| BatchUpdateRequest {
                                user_id: peers[*p].clone(), sequence: *s, message_hash: h, timestamp: *ts }).collect();
                            match sys.batch_update(b).await {
                                Ok(x) => x.iter().map(|y| if y.applied == matches!(y.result, SequenceValidationResult::Valid) { res_name(&y.result) } else { "AppliedMismatch" }).collect(),
                                Err(_) => vec!["Err"; reqs.len()],
                            }
                        };
                        let tk2 = ticket();
                        if let Some(last) = log.lock().expect("log").last_mut() {
                            last.ret = Some((tk2, res));
                        }
                        if r.gen_bool(0.3) {
                            tokio::task::yield_now().await;
                        }
                    }
                }));
            }
            let mut panics = Vec::new();
            for (ti, h) in handles.into_iter().enumerate() {
                if let Err(e) = h.await {
                    if e.is_panic() {
                        panics.push(ti);
                    }
                }
            }
            // merge by ticket
            let mut evs: Vec<(u64, Value)> = Vec::new();
            for (ti, log) in logs.iter().enumerate() {
                for c in log.lock().expect("log").iter() {
                    match &c.ret {
                        Some((tk2, res)) => {
                            evs.push((c.tk, json!({"ev":"Call","t":ti+1,"via":c.via,"reqs":c.reqs,"res":res})));
                            evs.push((*tk2, json!({"ev":"Ret","t":ti+1})));
                        }
                        None => evs.push((c.tk, json!({"ev":"Panic","t":ti+1,"via":c.via,"reqs":c.reqs}))),
                    }
                }
            }
            for ti in panics {
                evs.push((u64::MAX, json!({"ev":"Panic","t":ti+1,"via":"task"})));
            }
            evs.sort_by_key(|e| e.0);
            for (_, v) in evs {
                t.ev(v);
            }
        }
        t.ev(json!({"ev":"End"}));
    });
    let n = t.finish();
    eprintln!("c12 conc: {n} events");
    0
}
