//! C17 driver: the real `WeightedPlacementStrategy::select_nodes` / `PlacementEngine::select_nodes`
//! on seeded candidate sets (0..60 nodes, metadata gaps, foreign metadata entries, degenerate
//! optimisation weights, replication factors 0..=20, many sampler seeds per input),
//! `WeightedSampler::sample_nodes` / `calculate_weight` with zero / negative / infinite / NaN
//! scores, the 10:1 sampling tally, and the `ReplicationFactor` / `ByzantineTolerance` bounds.
//! The oracle is spec/Trace_Placement.tla.
//!
//! Trusted base (no expected values): candidates are placed on a grid of *sites*; members of one
//! site are at most ~42.5 km apart (a north-south segment of +-0.19 degrees of latitude, +-0.02
//! degrees of longitude; polar sites within 21 km of the pole), members of different sites are at
//! least ~63 km apart (the second site of a cluster is 0.95 degrees of latitude away, clusters are
//! >= 20 degrees apart). The logged `site` token is the near/far (50 km) relation the specification
//! uses; the library's own `distance_km` is logged for each selected pair in metres for information.
use crate::common::{self, Args, Trace};
use rand::seq::SliceRandom;
use rand::Rng;
use saorsa_core::adaptive::performance::PerformanceMonitor;
use saorsa_core::adaptive::trust::EigenTrustEngine;
use saorsa_core::adaptive::NodeId;
use saorsa_core::placement::{
    ByzantineTolerance, GeographicLocation, NetworkRegion, OptimizationWeights, PlacementConfig, PlacementDecision,
    PlacementEngine, PlacementError, PlacementStrategy, ReplicationFactor, WeightedPlacementStrategy, WeightedSampler,
};
use serde_json::{Value, json};
use std::collections::{HashMap, HashSet};
use std::panic::AssertUnwindSafe;
use std::time::Duration;

const REGIONS: [NetworkRegion; 8] = [
    NetworkRegion::NorthAmerica,
    NetworkRegion::SouthAmerica,
    NetworkRegion::Europe,
    NetworkRegion::AsiaPacific,
    NetworkRegion::Africa,
    NetworkRegion::MiddleEast,
    NetworkRegion::Oceania,
    NetworkRegion::Unknown,
];

/// site table: (kind, lat, lon); kind 0 = ordinary, 1 = antimeridian, 2 = north pole, 3 = south pole
fn sites() -> Vec<(u8, f64, f64)> {
    let mut v = Vec::new();
    for lat in [-60.0, -30.0, 0.0, 30.0, 60.0] {
        for lon in [-160.0, -120.0, -80.0, -40.0, 0.0, 40.0, 80.0, 120.0, 160.0] {
            v.push((0, lat, lon));
            v.push((0, lat + 0.95, lon)); // second site of the cluster, ~105.6 km north (members >= ~63 km from the first site's)
        }
    }
    v.push((1, 0.0, 180.0));
    v.push((1, 0.95, 180.0));
    v.push((2, 90.0, 0.0));
    v.push((3, -90.0, 0.0));
    v
}

fn place(rng: &mut impl Rng, s: (u8, f64, f64)) -> GeographicLocation {
    // members of a site lie on a short north-south segment: +-0.19 degrees of latitude (+-21 km),
    // +-0.02 degrees of longitude (<= 2.3 km): two members are at most ~42.5 km apart
    let (j, jl) = (0.19, 0.02);
    let (lat, lon) = match s.0 {
        0 => (s.1 + rng.gen_range(-j..=j), s.2 + rng.gen_range(-jl..=jl)),
        1 => {
            let d: f64 = rng.gen_range(0.0..=jl);
            (s.1 + rng.gen_range(-j..=j), if rng.gen_bool(0.5) { 180.0 - d } else { -180.0 + d })
        }
        2 => (90.0 - rng.gen_range(0.0..=j), rng.gen_range(-180.0..=180.0)),
        _ => (-90.0 + rng.gen_range(0.0..=j), rng.gen_range(-180.0..=180.0)),
    };
    match GeographicLocation::new(lat, lon) {
        Ok(l) => l,
        Err(e) => {
            eprintln!("c17: grid location refused: {e}");
            std::process::exit(2)
        }
    }
}

fn nid(rng: &mut impl Rng) -> NodeId {
    let mut h = [0u8; 32];
    rng.fill(&mut h);
    NodeId { hash: h }
}

fn err_kind(e: &PlacementError) -> &'static str {
    match e {
        PlacementError::InsufficientNodes { .. } => "InsufficientNodes",
        PlacementError::InvalidReplicationFactor(_) => "InvalidReplicationFactor",
        PlacementError::InvalidConfiguration { .. } => "InvalidConfiguration",
        PlacementError::InvalidWeight { .. } => "InvalidWeight",
        PlacementError::NodeMetadataNotFound(_) => "NodeMetadataNotFound",
        PlacementError::PlacementTimeout => "PlacementTimeout",
        PlacementError::DiversityViolation { .. } => "DiversityViolation",
        PlacementError::ByzantineToleranceViolation { .. } => "ByzantineToleranceViolation",
        _ => "Other",
    }
}

fn degenerate(rng: &mut impl Rng) -> (OptimizationWeights, String) {
    let pool: [(f64, &str); 9] = [
        (0.0, "0"),
        (-1.0, "-1"),
        (1e308, "1e308"),
        (f64::INFINITY, "inf"),
        (f64::NEG_INFINITY, "-inf"),
        (f64::NAN, "NaN"),
        (1e-320, "subnormal"),
        (5.0, "5"),
        (1.0, "1"),
    ];
    let mut pick = || pool[rng.gen_range(0..pool.len())];
    let (a, b, c, d) = (pick(), pick(), pick(), pick());
    (
        OptimizationWeights { trust_weight: a.0, performance_weight: b.0, capacity_weight: c.0, diversity_weight: d.0 },
        format!("weights({},{},{},{})", a.1, b.1, c.1, d.1),
    )
}

struct Input {
    ids: Vec<NodeId>,
    cands: HashSet<NodeId>,
    meta: HashMap<NodeId, (GeographicLocation, u32, NetworkRegion)>,
    cj: Vec<Value>,
    index: HashMap<NodeId, usize>,
}

fn gen_input(rng: &mut impl Rng, fam: u32) -> (Input, &'static str) {
    let table = sites();
    let n = match rng.gen_range(0..8) {
        0 => rng.gen_range(0..=3),
        1 | 2 => rng.gen_range(3..=10),
        3 | 4 => rng.gen_range(8..=24),
        _ => rng.gen_range(0..=60),
    };
    let (name, nsites, nregions, nasns) = match fam {
        0 => ("diverse", table.len(), 8, 60),
        1 => ("clustered", rng.gen_range(2..=6), rng.gen_range(1..=3), rng.gen_range(1..=3)),
        2 => ("mixed", 24, 8, 6),
        _ => ("metagap", 24, 8, 6),
    };
    let mut site_ids: Vec<usize> = (0..table.len()).collect();
    site_ids.shuffle(rng);
    site_ids.truncate(nsites);
    let mut inp = Input { ids: Vec::new(), cands: HashSet::new(), meta: HashMap::new(), cj: Vec::new(), index: HashMap::new() };
    let mut diverse_sites = site_ids.clone();
    for i in 0..n {
        let id = nid(rng);
        let s = if fam == 0 && !diverse_sites.is_empty() { diverse_sites.pop().unwrap_or(0) } else { site_ids[rng.gen_range(0..site_ids.len())] };
        let region = if fam == 0 { i % 8 } else { rng.gen_range(0..nregions) };
        let asn = 64500 + if fam == 0 { i as u32 } else { rng.gen_range(0..nasns) as u32 };
        let has_meta = !(fam == 3 && rng.gen_bool(0.08));
        if has_meta {
            inp.meta.insert(id.clone(), (place(rng, table[s]), asn, REGIONS[region]));
        }
        inp.cj.push(json!({"id": i + 1, "region": region + 1, "asn": asn, "site": s + 1, "meta": has_meta}));
        inp.index.insert(id.clone(), i + 1);
        inp.cands.insert(id.clone());
        inp.ids.push(id);
    }
    // metadata about nodes that are not candidates (must never be selected)
    for _ in 0..rng.gen_range(0..4) {
        let s = site_ids[rng.gen_range(0..site_ids.len())];
        inp.meta.insert(nid(rng), (place(rng, table[s]), 64999, REGIONS[rng.gen_range(0..8)]));
    }
    (inp, name)
}

fn outcome_json(inp: &Input, r: &Result<Result<PlacementDecision, PlacementError>, String>) -> Value {
    match r {
        Err(msg) => json!({"kind":"panic","msg":msg}),
        Ok(Err(e)) => json!({"kind":"err","err":err_kind(e)}),
        Ok(Ok(d)) => {
            let sel: Vec<usize> = d.selected_nodes.iter().map(|x| inp.index.get(x).copied().unwrap_or(0)).collect();
            let mut pairs = Vec::new();
            for (i, a) in d.selected_nodes.iter().enumerate() {
                for b in d.selected_nodes.iter().skip(i + 1) {
                    if let (Some(ma), Some(mb), Some(ia), Some(ib)) = (inp.meta.get(a), inp.meta.get(b), inp.index.get(a), inp.index.get(b)) {
                        pairs.push(json!({"a": ia, "b": ib, "m": (ma.0.distance_km(&mb.0) * 1000.0).round() as i64}));
                    }
                }
            }
            json!({"kind":"ok","sel":sel,"pairs":pairs})
        }
    }
}

fn placements(t: &mut Trace, rng: &mut impl Rng, inputs: u64, seeds: u64) {
    let rt = common::rt();
    let trust = EigenTrustEngine::new(HashSet::new());
    let perf = PerformanceMonitor::new();
    for case in 0..inputs {
        let fam = [0, 0, 1, 2, 2, 3][rng.gen_range(0..6)];
        let (inp, famname) = gen_input(rng, fam);
        let n = inp.ids.len();
        let k: u8 = match rng.gen_range(0..8) {
            0 => 0,
            1 => n.min(20) as u8,
            2 => (n + 1).min(20) as u8,
            3 => rng.gen_range(0..=20),
            _ => rng.gen_range(1..=9),
        };
        let (weights, scores) = if rng.gen_bool(0.2) { degenerate(rng) } else { (OptimizationWeights::default(), "default".to_string()) };
        let use_engine = rng.gen_bool(0.3);
        let cfg = PlacementConfig {
            replication_factor: if rng.gen_bool(0.5) { ReplicationFactor::default() } else { ReplicationFactor { min: 1, default: 3, max: 20 } },
            placement_timeout: Duration::from_secs(30),
            byzantine_tolerance: if rng.gen_bool(0.5) { ByzantineTolerance::None } else { ByzantineTolerance::default() },
            optimization_weights: weights,
        };
        let via = if use_engine { "PlacementEngine::select_nodes" } else { "WeightedPlacementStrategy::select_nodes" };
        let mut seen: HashMap<String, u64> = HashMap::new();
        let mut strategy = WeightedPlacementStrategy::new(cfg.clone());
        let mut engine = PlacementEngine::new(cfg.clone());
        for s in 0..seeds {
            fastrand::seed(common::seed().wrapping_mul(1_000_003).wrapping_add(case * 1009 + s));
            let r = common::catch(AssertUnwindSafe(|| {
                rt.block_on(async {
                    if use_engine {
                        engine.select_nodes(&inp.cands, k, &trust, &perf, &inp.meta).await
                    } else {
                        strategy.select_nodes(&inp.cands, k, &trust, &perf, &inp.meta).await
                    }
                })
            }));
            if r.is_err() {
                // objects may be poisoned after a panic
                strategy = WeightedPlacementStrategy::new(cfg.clone());
                engine = PlacementEngine::new(cfg.clone());
            }
            let oj = outcome_json(&inp, &r);
            let key = match &r {
                Ok(Ok(_)) => serde_json::to_string(&oj["sel"]).unwrap_or_default(),
                _ => serde_json::to_string(&oj).unwrap_or_default(),
            };
            let c = seen.entry(key).or_insert(0);
            *c += 1;
            if *c == 1 {
                // each distinct outcome of this input is logged once
                t.ev(json!({"ev":"Place","via":via,"fam":famname,"k":k,"scores":scores,"seed":s,"cands":inp.cj,"out":oj}));
            }
        }
    }
}

fn weight_class(w: f64) -> &'static str {
    if w.is_nan() {
        "NaN"
    } else if w == f64::INFINITY {
        "inf"
    } else if w == f64::NEG_INFINITY {
        "-inf"
    } else if w == 0.0 {
        "zero"
    } else if w < 0.0 {
        "negative"
    } else {
        "positive"
    }
}

fn samples(t: &mut Trace, rng: &mut impl Rng, cases: u64) {
    let pool = [1.0, 0.5, 10.0, 1e-300, 1e300, 0.0, -0.0, -1.0, f64::INFINITY, f64::NEG_INFINITY, f64::NAN, 1e-320, f64::MIN_POSITIVE];
    for case in 0..cases {
        let n = match rng.gen_range(0..4) {
            0 => rng.gen_range(0..=4),
            1 => rng.gen_range(21..=48), // long enough for the standard sort to notice an inconsistent order
            _ => rng.gen_range(0..=40),
        };
        let bad = match rng.gen_range(0..4) {
            0 => 0.0,
            1 => 0.05,
            2 => 0.3,
            _ => 0.8,
        };
        let ids: Vec<NodeId> = (0..n).map(|_| nid(rng)).collect();
        let index: HashMap<NodeId, usize> = ids.iter().enumerate().map(|(i, x)| (x.clone(), i + 1)).collect();
        // one case in five: the only degenerate weight is NaN (other kinds are refused before the sort)
        let only_nan = rng.gen_range(0..5) == 0;
        let ws: Vec<f64> = (0..n).map(|_| if only_nan && rng.gen_bool(0.2) { f64::NAN } else if only_nan { pool[rng.gen_range(0..5)] * rng.gen_range(0.1..2.0) } else if rng.gen_bool(bad) { pool[rng.gen_range(5..pool.len())] } else { pool[rng.gen_range(0..5)] * rng.gen_range(0.1..2.0) }).collect();
        let mut classes: Vec<&str> = ws.iter().map(|&w| weight_class(w)).filter(|c| *c != "positive").collect();
        classes.sort();
        classes.dedup();
        let scores = if classes.is_empty() { "positive".to_string() } else { classes.join("+") };
        let k = match rng.gen_range(0..5) {
            0 => 0,
            1 => 1,
            2 => n,
            3 => n + 1,
            _ => rng.gen_range(0..=n),
        };
        let list: Vec<(NodeId, f64)> = ids.iter().cloned().zip(ws.iter().copied()).collect();
        fastrand::seed(common::seed().wrapping_mul(7_000_003).wrapping_add(case));
        let r = common::catch(AssertUnwindSafe(|| WeightedSampler::new().sample_nodes(&list, k)));
        let out = match r {
            Err(msg) => json!({"kind":"panic","msg":msg}),
            Ok(Err(e)) => json!({"kind":"err","err":err_kind(&e)}),
            Ok(Ok(sel)) => json!({"kind":"ok","sel":sel.iter().map(|x| index.get(x).copied().unwrap_or(0)).collect::<Vec<_>>()}),
        };
        t.ev(json!({"ev":"Sample","n":n,"k":k,"scores":scores,"out":out}));
    }
    // calculate_weight with degenerate scores and exponents
    let vals = [0.0, 1.0, 0.5, -0.5, 1.5, f64::NAN, f64::INFINITY, f64::NEG_INFINITY, 1e-320, 1e308, -1e308];
    for _ in 0..cases {
        let mut p = || vals[rng.gen_range(0..vals.len())];
        let a = [p(), p(), p(), p(), p(), p(), p()];
        let id = NodeId { hash: [7u8; 32] };
        let r = common::catch(AssertUnwindSafe(|| WeightedSampler::new().calculate_weight(&id, a[0], a[1], a[2], a[3], a[4], a[5], a[6])));
        let (out, cls) = match r {
            Err(msg) => (json!({"kind":"panic","msg":msg}), "panic".to_string()),
            Ok(Err(e)) => (json!({"kind":"err","err":err_kind(&e)}), "err".to_string()),
            Ok(Ok(w)) => (json!({"kind":"ok","class":weight_class(w)}), weight_class(w).to_string()),
        };
        let _ = cls;
        t.ev(json!({"ev":"Weight","scores":a.iter().map(|x| format!("{x:e}")).collect::<Vec<_>>().join(","),"out":out}));
    }
}

fn tally(t: &mut Trace, draws: u64) {
    for (hw, lw, label) in [(10.0, 1.0, "10:1"), (3.0, 1.0, "3:1")] {
        let heavy = NodeId { hash: [1u8; 32] };
        let light = NodeId { hash: [2u8; 32] };
        let (mut h, mut l, mut other) = (0u64, 0u64, 0u64);
        fastrand::seed(common::seed().wrapping_add(99));
        for i in 0..draws {
            // alternate the order of presentation
            let list = if i % 2 == 0 { vec![(heavy.clone(), hw), (light.clone(), lw)] } else { vec![(light.clone(), lw), (heavy.clone(), hw)] };
            match common::catch(AssertUnwindSafe(|| WeightedSampler::new().sample_nodes(&list, 1))) {
                Ok(Ok(sel)) if sel.first() == Some(&heavy) => h += 1,
                Ok(Ok(sel)) if sel.first() == Some(&light) => l += 1,
                _ => other += 1,
            }
        }
        t.ev(json!({"ev":"Tally","ratio":label,"draws":draws,"heavy":h,"light":l,"other":other}));
    }
}

fn bounds(t: &mut Trace) {
    let vals: [u8; 8] = [0, 1, 2, 3, 4, 5, 20, 255];
    for &min in &vals {
        for &def in &vals {
            for &max in &vals {
                let r = ReplicationFactor::new(min, def, max);
                t.ev(json!({"ev":"Rf","min":min,"def":def,"max":max,"ok":r.is_ok()}));
                if let Ok(rf) = r {
                    for v in [0u8, min.saturating_sub(1), min, def, max, max.saturating_add(1), 255] {
                        t.ev(json!({"ev":"RfValid","min":rf.min_value(),"max":rf.max_value(),"v":v,"valid":rf.is_valid(v)}));
                    }
                }
            }
        }
    }
    let none = ByzantineTolerance::None;
    t.ev(json!({"ev":"Bt","kind":"none","f":0,"total":0,"required":none.required_nodes(),"maxf":none.max_faults(),"valid":none.is_valid()}));
    for f in 0..=6usize {
        let b = ByzantineTolerance::Classic { f };
        t.ev(json!({"ev":"Bt","kind":"classic","f":f,"total":0,"required":b.required_nodes(),"maxf":b.max_faults(),"valid":b.is_valid()}));
    }
    for total in 0..=8usize {
        for mf in 0..=5usize {
            let b = ByzantineTolerance::Custom { total_nodes: total, max_faults: mf };
            t.ev(json!({"ev":"Bt","kind":"custom","f":mf,"total":total,"required":b.required_nodes(),"maxf":b.max_faults(),"valid":b.is_valid()}));
        }
    }
}

pub fn drive(a: &Args) -> i32 {
    common::quiet_panics();
    let out = a.str("out", "/dev/stdout");
    let inputs = a.num("inputs", 150);
    let seeds = a.num("seeds", 40);
    let scases = a.num("samples", 400);
    let draws = a.num("draws", 2000);
    let mut t = Trace::create(&out);
    let mut rng = common::rng(17);
    t.ev(json!({"ev":"Reset","part":"placement"}));
    placements(&mut t, &mut rng, inputs, seeds);
    t.ev(json!({"ev":"Reset","part":"sampler"}));
    samples(&mut t, &mut rng, scases);
    tally(&mut t, draws);
    t.ev(json!({"ev":"Reset","part":"bounds"}));
    bounds(&mut t);
    let n = t.finish();
    eprintln!("c17 drive: {n} events");
    0
}
