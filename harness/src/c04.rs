//! C04 driver: request/response correlation of the three pending tables under adversarial
//! delivery. Real requests are issued concurrently; an adversary injects response frames into the
//! unmodified receive loop under arbitrary authenticated-sender ids (verif-hooks H2): right id and
//! sender, wrong sender, unknown id, duplicates, late (after the timeout); some request futures
//! are aborted. Logged per segment: Call / Inject / Ret / Abort / Sizes events in virtual-time
//! order. Oracle: spec/Trace_Rpc.tla.
//!   table "rr"   : TransportHandle::send_request      (cap 256)
//!   table "dht"  : DhtNetworkManager::send_request    (Ping)
//!   table "core" : DhtCoreEngine::retrieve through a harness NetworkSender (no sender binding in the API)
use crate::common::{self, Args, Trace};
use crate::net::{self, Endpoint, Fake, FakeReply, Hub, now_secs};
use rand::Rng;
use saorsa_core::dht::core_engine::{DhtCoreEngine, DhtKey, DhtRequestWrapper, DhtResponseWrapper, NodeCapacity, NodeId, NodeInfo};
use saorsa_core::dht::network_integration::DhtResponse;
use saorsa_core::dht_network_manager::{DhtMessageType, DhtNetworkMessage, DhtNetworkOperation, DhtNetworkResult};
use saorsa_core::network::NetworkSender;
use saorsa_core::transport_handle::TransportHandle;
use serde_json::{Value, json};
use std::sync::{Arc, Mutex};
use std::time::{Duration, SystemTime};

const TIMEOUT_MS: u64 = 2000;

fn ms(start: tokio::time::Instant) -> u64 {
    start.elapsed().as_millis() as u64
}

/// Plan of injections for one request: (time offset ms, kind)
fn plan(rng: &mut impl Rng) -> Vec<(u64, &'static str)> {
    let mut v = Vec::new();
    let n = rng.gen_range(0..4);
    for _ in 0..n {
        let kind = ["good", "good", "wrongsender", "claims", "unknownid", "dup", "late", "late"][rng.gen_range(0..8)];
        let at = match kind {
            "late" => TIMEOUT_MS + rng.gen_range(100..1500),
            _ => rng.gen_range(10..TIMEOUT_MS - 100),
        };
        v.push((at, kind));
    }
    v.sort();
    v
}

async fn seg_rr(seg: u64, rng: &mut rand_chacha::ChaCha8Rng, events: &mut Vec<Value>) {
    let hub = Hub::new(common::rng(4000 + seg), 0);
    let me = net::hex_id(rng);
    let a = Arc::new(TransportHandle::verif_new_in_memory(me.clone(), me.clone(), net::addr_for(1), hub.clone() as Arc<dyn saorsa_core::transport_handle::VerifNet>, Duration::from_secs(2)));
    if a.start_network_listeners().await.is_err() {
        return;
    }
    hub.register(&me, &net::addr_for(1), Endpoint::Real(a.clone()));
    // two harness peers that never answer by themselves: the adversary answers in their name
    let peers: Vec<String> = (0..2).map(|_| net::hex_id(rng)).collect();
    for (i, p) in peers.iter().enumerate() {
        hub.register(p, &net::addr_for(10 + i), Endpoint::Fake(Fake { lookup_reply: FakeReply::Silent, ack_put: false }));
        let _ = a.connect_peer(&net::addr_for(10 + i)).await;
    }
    net::settle().await;
    // in every other segment a send stays suspended inside the transport for a while (a full flow-control window):
    // cancellations then also strike between the registration of the pending entry and the completion of the send
    if seg % 6 == 3 {
        hub.st.lock().expect("hub").send_delay_max_ms = 150;
    }
    let start = tokio::time::Instant::now();
    let ncalls = rng.gen_range(1..6);
    let log: Arc<Mutex<Vec<(u64, Value)>>> = Arc::new(Mutex::new(Vec::new()));
    let mut handles = Vec::new();
    let mut plans = Vec::new();
    for c in 0..ncalls {
        let peer = peers[rng.gen_range(0..2)].clone();
        let at = rng.gen_range(0..300u64);
        let abort_at = if rng.gen_bool(0.2) { Some(at + if rng.gen_bool(0.3) { rng.gen_range(0..150u64) } else { rng.gen_range(50..1500u64) }) } else { None };
        plans.push((c, peer.clone(), at, plan(rng), abort_at));
        let a2 = a.clone();
        let log2 = log.clone();
        let h = tokio::spawn(async move {
            tokio::time::sleep(Duration::from_millis(at)).await;
            log2.lock().expect("log").push((ms(start), json!({"ev":"Call","t":c})));
            let payload = vec![c as u8; 4];
            let r = a2.send_request(&peer, "verif", payload, Duration::from_millis(TIMEOUT_MS)).await;
            let (ok, val) = match &r {
                Ok(resp) => (true, resp.data.first().copied().unwrap_or(0) as i64 * 1000 + resp.data.len() as i64),
                Err(_) => (false, 0),
            };
            log2.lock().expect("log").push((ms(start), json!({"ev":"Ret","t":c,"ok":ok,"val":val,"err": r.err().map(|e| e.to_string()).unwrap_or_default()})));
        });
        handles.push(h);
    }
    // adversary: learns each request's id from the frame at the hub, then injects per plan
    let mut adv = Vec::new();
    for (c, peer, at, pl, abort_at) in plans.clone() {
        let hub2 = hub.clone();
        let a2 = a.clone();
        let log2 = log.clone();
        let other = peers.iter().find(|p| **p != peer).cloned().unwrap_or_default();
        let me2 = me.clone();
        adv.push(tokio::spawn(async move {
            tokio::time::sleep(Duration::from_millis(at + 5)).await;
            // find the request frame of call c (payload marker) and decode its envelope id
            let mut id = None;
            for f in hub2.frames_since(0) {
                if f.from == me2 && f.to == peer && f.proto == "/rr/verif" {
                    // frame payload is not kept by the hub log; ids are recovered below
                    let _ = &f;
                }
            }
            if let Some(found) = crate::c04::rr_ids(&hub2, &me2).into_iter().find(|(m, _, _)| *m == c as u8) {
                id = Some(found.1);
            }
            let Some(id) = id else { return };
            log2.lock().expect("log").push((ms(start), json!({"ev":"Sent","t":c,"id":id.clone(),"peer":peer.clone()})));
            let mut n = 0i64;
            for (off, kind) in pl {
                let target = at + off;
                let now = ms(start);
                if target > now {
                    tokio::time::sleep(Duration::from_millis(target - now)).await;
                }
                n += 1;
                let (inj_id, sender) = match kind {
                    "wrongsender" | "claims" => (id.clone(), other.clone()),
                    "unknownid" => (format!("{}-x", id), peer.clone()),
                    _ => (id.clone(), peer.clone()),
                };
                // "claims": arrives on the other peer's connection, but the frame names the contacted peer as its origin
                let claimed_from = if kind == "claims" { peer.clone() } else { sender.clone() };
                let val = (c as i64 + 1) * 1000 + n; // payload: first byte c+1, length n
                let payload = vec![(c + 1) as u8; n as usize];
                let env = saorsa_core::network::verif_encode_rr(&inj_id, true, payload);
                let frame = saorsa_core::network::verif_encode_wire("/rr/verif", env, &claimed_from, now_secs());
                log2.lock().expect("log").push((ms(start), json!({"ev":"Inject","id":inj_id,"sender":sender,"val":val,"kind":kind})));
                let _ = a2.verif_inject(&sender, frame).await;
            }
            let _ = abort_at;
        }));
    }
    // aborts
    for (c, _, _, _, abort_at) in plans.iter() {
        if let Some(t) = abort_at {
            let now = ms(start);
            if *t > now {
                tokio::time::sleep(Duration::from_millis(*t - now)).await;
            }
            if !handles[*c].is_finished() {
                handles[*c].abort();
                log.lock().expect("log").push((ms(start), json!({"ev":"Abort","t":c})));
            }
        }
    }
    for h in handles {
        let _ = h.await;
    }
    for h in adv {
        let _ = h.await;
    }
    tokio::time::sleep(Duration::from_millis(200)).await;
    net::settle().await;
    let size = a.verif_active_requests_len().await;
    let mut l = log.lock().expect("log").clone();
    l.sort_by_key(|x| x.0);
    events.push(json!({"ev":"Reset","table":"rr","timeout":TIMEOUT_MS,"cap":256}));
    for (t, mut e) in l {
        if let Some(o) = e.as_object_mut() {
            o.insert("at".into(), json!(t));
        }
        events.push(e);
    }
    events.push(json!({"ev":"Sizes","pending":size}));
    let _ = a.stop().await;
}

/// (payload marker, message id, peer) of every /rr/ request `me` sent, recovered from the raw frames kept by a tap.
pub fn rr_ids(hub: &Arc<Hub>, me: &str) -> Vec<(u8, String, String)> {
    let s = hub.st.lock().expect("hub");
    let mut out = Vec::new();
    for (from, to, bytes) in s.rr_tap.iter() {
        if from == me
            && let Some((_, data, _, _)) = saorsa_core::network::verif_decode_wire(bytes)
            && let Some((id, is_resp, payload)) = TransportHandle::parse_request_envelope(&data)
            && !is_resp
        {
            out.push((payload.first().copied().unwrap_or(255), id, to.clone()));
        }
    }
    out
}

async fn seg_dht(seg: u64, rng: &mut rand_chacha::ChaCha8Rng, events: &mut Vec<Value>) {
    let hub = Hub::new(common::rng(5000 + seg), 0);
    let me = net::hex_id(rng);
    let Ok(node) = net::spawn_real(&hub, &me, &net::addr_for(1), Duration::from_millis(TIMEOUT_MS), 8).await else { return };
    let peers: Vec<String> = (0..2).map(|_| net::hex_id(rng)).collect();
    for (i, p) in peers.iter().enumerate() {
        hub.register(p, &net::addr_for(10 + i), Endpoint::Fake(Fake { lookup_reply: FakeReply::Silent, ack_put: false }));
        let _ = node.mgr.connect_to_peer(&net::addr_for(10 + i)).await;
    }
    // harness endpoints answer Ping by themselves (PongReceived): make them silent so only the adversary answers
    for p in &peers {
        hub.set_silent(p, true);
    }
    net::settle().await;
    let start = tokio::time::Instant::now();
    let ncalls = rng.gen_range(1..6);
    let log: Arc<Mutex<Vec<(u64, Value)>>> = Arc::new(Mutex::new(Vec::new()));
    let mut handles = Vec::new();
    let mut plans = Vec::new();
    for c in 0..ncalls {
        let peer = peers[rng.gen_range(0..2)].clone();
        let at = (c as u64) * 7 + rng.gen_range(0..5u64) * 50; // distinct start instants: calls are told apart by order at the hub
        let abort_at = if rng.gen_bool(0.2) { Some(at + rng.gen_range(50..1500u64)) } else { None };
        plans.push((c, peer.clone(), at, plan(rng), abort_at));
        let m = node.mgr.clone();
        let log2 = log.clone();
        handles.push(tokio::spawn(async move {
            tokio::time::sleep(Duration::from_millis(at)).await;
            log2.lock().expect("log").push((ms(start), json!({"ev":"Call","t":c})));
            let r = m.send_request(&peer, DhtNetworkOperation::Ping).await;
            let (ok, val) = match &r {
                Ok(DhtNetworkResult::PongReceived { latency, .. }) => (true, latency.as_millis() as i64),
                Ok(_) => (true, -1),
                Err(_) => (false, 0),
            };
            log2.lock().expect("log").push((ms(start), json!({"ev":"Ret","t":c,"ok":ok,"val":val,"err": r.err().map(|e| e.to_string()).unwrap_or_default()})));
        }));
    }
    let mut adv = Vec::new();
    let claimed: Arc<Mutex<std::collections::HashSet<String>>> = Arc::new(Mutex::new(std::collections::HashSet::new()));
    for (c, peer, at, pl, _) in plans.clone() {
        let hub2 = hub.clone();
        let t = node.transport.clone();
        let log2 = log.clone();
        let other = peers.iter().find(|p| **p != peer).cloned().unwrap_or_default();
        let me2 = me.clone();
        let claimed2 = claimed.clone();
        adv.push(tokio::spawn(async move {
            tokio::time::sleep(Duration::from_millis(at + 2)).await;
            // the request frame this call produced: the newest unclaimed Ping request from me to peer
            let fr = hub2.frames_since(0);
            let req = {
                let mut cl = claimed2.lock().expect("claimed");
                let found = fr
                    .iter()
                    .rev()
                    .filter(|f| f.from == me2 && f.to == peer)
                    .filter_map(|f| f.dht.clone())
                    .find(|m| matches!(m.message_type, DhtMessageType::Request) && !cl.contains(&m.message_id));
                if let Some(m) = &found {
                    cl.insert(m.message_id.clone());
                }
                found
            };
            let Some(req) = req else { return };
            let id = req.message_id.clone();
            log2.lock().expect("log").push((ms(start), json!({"ev":"Sent","t":c,"id":id.clone(),"peer":peer.clone()})));
            let mut n = 0i64;
            for (off, kind) in pl {
                let target = at + off;
                let now = ms(start);
                if target > now {
                    tokio::time::sleep(Duration::from_millis(target - now)).await;
                }
                n += 1;
                let (inj_id, sender) = match kind {
                    "wrongsender" | "claims" => (id.clone(), other.clone()),
                    "unknownid" => (format!("{}-x", id), peer.clone()),
                    _ => (id.clone(), peer.clone()),
                };
                // "claims": arrives on the other peer's connection, payload and frame name the contacted peer as the source
                let claimed = if kind == "claims" { peer.clone() } else { sender.clone() };
                let val = (c as i64 + 1) * 1000 + n;
                let resp = DhtNetworkMessage {
                    message_id: inj_id.clone(),
                    source: claimed.clone(),
                    target: Some(me2.clone()),
                    message_type: DhtMessageType::Response,
                    payload: DhtNetworkOperation::Ping,
                    result: Some(DhtNetworkResult::PongReceived { responder: claimed.clone(), latency: Duration::from_millis(val as u64) }),
                    timestamp: now_secs(),
                    ttl: 9,
                    hop_count: 1,
                };
                let data = postcard::to_stdvec(&resp).unwrap_or_default();
                let frame = saorsa_core::network::verif_encode_wire("/dht/1.0.0", data, &claimed, now_secs());
                log2.lock().expect("log").push((ms(start), json!({"ev":"Inject","id":inj_id,"sender":sender,"val":val,"kind":kind})));
                let _ = t.verif_inject(&sender, frame).await;
            }
        }));
    }
    for (c, _, _, _, abort_at) in plans.iter() {
        if let Some(t) = abort_at {
            let now = ms(start);
            if *t > now {
                tokio::time::sleep(Duration::from_millis(*t - now)).await;
            }
            if !handles[*c].is_finished() {
                handles[*c].abort();
                log.lock().expect("log").push((ms(start), json!({"ev":"Abort","t":c})));
            }
        }
    }
    for h in handles {
        let _ = h.await;
    }
    for h in adv {
        let _ = h.await;
    }
    tokio::time::sleep(Duration::from_millis(200)).await;
    net::settle().await;
    let size = node.mgr.verif_active_operations_len();
    let mut l = log.lock().expect("log").clone();
    l.sort_by_key(|x| x.0);
    events.push(json!({"ev":"Reset","table":"dht","timeout":TIMEOUT_MS,"cap":0}));
    for (t, mut e) in l {
        if let Some(o) = e.as_object_mut() {
            o.insert("at".into(), json!(t));
        }
        events.push(e);
    }
    events.push(json!({"ev":"Sizes","pending":size}));
    for p in &peers {
        hub.set_silent(p, true);
    }
    let _ = node.mgr.stop().await;
    let _ = node.transport.stop().await;
}

struct TapSender {
    me: String,
    sent: Mutex<Vec<(String, Vec<u8>)>>,
}

#[async_trait::async_trait]
impl NetworkSender for TapSender {
    async fn send_message(&self, peer_id: &String, _protocol: &str, data: Vec<u8>) -> saorsa_core::Result<()> {
        self.sent.lock().expect("tap").push((peer_id.clone(), data));
        Ok(())
    }
    fn local_peer_id(&self) -> &String {
        &self.me
    }
}

async fn seg_core(rng: &mut rand_chacha::ChaCha8Rng, events: &mut Vec<Value>) {
    let mut b = [0u8; 32];
    rng.fill(&mut b);
    let Ok(mut eng) = DhtCoreEngine::verif_new_log_only(NodeId::from_bytes(b)) else { return };
    let tap = Arc::new(TapSender { me: "me".into(), sent: Mutex::new(Vec::new()) });
    eng.set_transport(tap.clone());
    let npeers = rng.gen_range(1..=3);
    let mut infos = Vec::new();
    for i in 0..npeers {
        let mut id = [0u8; 32];
        rng.fill(&mut id);
        infos.push(NodeInfo { id: NodeId::from_bytes(id), address: format!("verif-{i}"), last_seen: SystemTime::now(), capacity: NodeCapacity::default() });
    }
    let _ = eng.join_network(infos).await;
    let eng = Arc::new(eng);
    let start = tokio::time::Instant::now();
    let log: Arc<Mutex<Vec<(u64, Value)>>> = Arc::new(Mutex::new(Vec::new()));
    let key = DhtKey::from_bytes([3u8; 32]);
    // one retrieve = up to 3 parallel queries; the call returns the first value in peer order once all queries ended
    let e2 = eng.clone();
    let log2 = log.clone();
    let k2 = key.clone();
    let abort = rng.gen_bool(0.25);
    let h = tokio::spawn(async move {
        log2.lock().expect("log").push((ms(start), json!({"ev":"Call","t":0})));
        let r = e2.retrieve(&k2).await;
        let (ok, val) = match &r {
            Ok(Some(v)) => (true, v.first().copied().unwrap_or(0) as i64 * 1000 + v.len() as i64),
            Ok(None) => (false, 0),
            Err(_) => (false, -1),
        };
        log2.lock().expect("log").push((ms(start), json!({"ev":"Ret","t":0,"ok":ok,"val":val,"err":""})));
    });
    tokio::time::sleep(Duration::from_millis(5)).await;
    let sent: Vec<(String, Vec<u8>)> = tap.sent.lock().expect("tap").clone();
    let mut q = 0usize;
    for (peer, bytes) in &sent {
        let Ok(w) = postcard::from_bytes::<DhtRequestWrapper>(bytes) else { continue };
        log.lock().expect("log").push((ms(start), json!({"ev":"Sent","t":q,"id":w.id.clone(),"peer":peer.clone()})));
        q += 1;
        for (off, kind) in plan(rng) {
            let kind = if kind == "wrongsender" || kind == "claims" { "good" } else { kind }; // the API has no sender: not expressible
            let late = kind == "late";
            let target = if late { 5000 + off } else { off * 2 };
            let now = ms(start);
            if target > now {
                tokio::time::sleep(Duration::from_millis(target - now)).await;
            }
            let id = if kind == "unknownid" { format!("{}-x", w.id) } else { w.id.clone() };
            let n = rng.gen_range(1..9usize);
            let payload = vec![q as u8; n];
            let val = q as i64 * 1000 + n as i64;
            log.lock().expect("log").push((ms(start), json!({"ev":"Inject","id":id.clone(),"sender":peer.clone(),"val":val,"kind":kind})));
            eng.handle_response(DhtResponseWrapper { id, response: DhtResponse::RetrieveReply { value: Some(payload) } }).await;
        }
    }
    if abort && !h.is_finished() {
        h.abort();
        log.lock().expect("log").push((ms(start), json!({"ev":"Abort","t":0})));
    }
    let _ = h.await;
    tokio::time::sleep(Duration::from_millis(6000)).await;
    net::settle().await;
    let size = eng.verif_pending_len().await;
    let mut l = log.lock().expect("log").clone();
    l.sort_by_key(|x| x.0);
    events.push(json!({"ev":"Reset","table":"core","timeout":5000,"cap":10000}));
    for (t, mut e) in l {
        if let Some(o) = e.as_object_mut() {
            o.insert("at".into(), json!(t));
        }
        events.push(e);
    }
    events.push(json!({"ev":"Sizes","pending":size}));
    eng.signal_shutdown();
}

/// Cap of the /rr/ table: 256 silent requests, then one more.
async fn seg_cap(rng: &mut rand_chacha::ChaCha8Rng, events: &mut Vec<Value>) {
    let hub = Hub::new(common::rng(4999), 0);
    let me = net::hex_id(rng);
    let a = Arc::new(TransportHandle::verif_new_in_memory(me.clone(), me.clone(), net::addr_for(1), hub.clone() as Arc<dyn saorsa_core::transport_handle::VerifNet>, Duration::from_secs(2)));
    if a.start_network_listeners().await.is_err() {
        return;
    }
    hub.register(&me, &net::addr_for(1), Endpoint::Real(a.clone()));
    // the requests are spread over 1..4 silent destination peers: the cap is on the table, not per destination
    let npeers = rng.gen_range(1..=4usize);
    let mut ps = Vec::new();
    for k in 0..npeers {
        let p = net::hex_id(rng);
        hub.register(&p, &net::addr_for(10 + k), Endpoint::Fake(Fake { lookup_reply: FakeReply::Silent, ack_put: false }));
        let _ = a.connect_peer(&net::addr_for(10 + k)).await;
        ps.push(p);
    }
    let n = 256 + rng.gen_range(1..20usize) * npeers;
    let mut hs = Vec::new();
    for i in 0..n {
        let a2 = a.clone();
        let p2 = ps[i % npeers].clone();
        hs.push(tokio::spawn(async move { a2.send_request(&p2, "verif", vec![(i % 250) as u8], Duration::from_millis(TIMEOUT_MS)).await.map(|_| ()).map_err(|e| e.to_string()) }));
    }
    tokio::time::sleep(Duration::from_millis(100)).await;
    let peak = a.verif_active_requests_len().await;
    let mut refused = 0;
    let mut timed_out = 0;
    for h in hs {
        match h.await {
            Ok(Err(e)) if e.contains("Too many active requests") => refused += 1,
            Ok(Err(_)) => timed_out += 1,
            _ => {}
        }
    }
    net::settle().await;
    let end = a.verif_active_requests_len().await;
    events.push(json!({"ev":"Cap","table":"rr","issued":n,"peak":peak,"refused":refused,"timed_out":timed_out,"end":end,"cap":256,"peers":npeers}));
    let _ = a.stop().await;
}

pub fn drive(a: &Args) -> i32 {
    let out = a.str("out", "/dev/stdout");
    let segments = a.num("segments", 30);
    let mut t = Trace::create(&out);
    let mut rng = common::rng(4);
    for seg in 0..segments {
        let rt = net::paused_rt();
        let mut events = Vec::new();
        rt.block_on(async {
            match seg % 3 {
                0 => seg_rr(seg, &mut rng, &mut events).await,
                1 => seg_dht(seg, &mut rng, &mut events).await,
                _ => seg_core(&mut rng, &mut events).await,
            }
            if seg % 40 == 39 {
                seg_cap(&mut rng, &mut events).await;
            }
        });
        drop(rt);
        for e in events {
            t.ev(e);
        }
    }
    let n = t.finish();
    eprintln!("c04 drive: {n} events");
    0
}
