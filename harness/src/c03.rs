//! C03 driver: put / get / store_local / remote PUT on clusters of real DhtNetworkManagers over the
//! in-memory hub. After every operation the local store of every real node is read (ground truth)
//! and logged next to the operation's RPC transcript. Oracle: spec/Trace_Store.tla.
use crate::c01::{Names, add_liars, transcript};
use crate::common::{self, Args, Trace};
use crate::net::{self, ClusterSpec};
use rand::Rng;
use saorsa_core::dht::core_engine::{DhtCoreEngine, DhtKey, DhtRequestWrapper, NodeId};
use saorsa_core::dht::network_integration::{DhtMessage, DhtResponse};
use saorsa_core::dht_network_manager::{DhtNetworkOperation, DhtNetworkResult};
use serde_json::{Value, json};
use std::time::Duration;

/// value bytes for a token: 8 bytes of token, then filler, total length `len` (>= 8) - or all filler if len < 8
pub fn value_bytes(tok: u64, len: usize) -> Vec<u8> {
    let mut v = Vec::with_capacity(len);
    v.extend_from_slice(&tok.to_le_bytes());
    while v.len() < len {
        v.push((tok as u8).wrapping_add(v.len() as u8));
    }
    v.truncate(len);
    v
}

/// Interns byte strings: equal bytes = equal token; unknown bytes get fresh negative tokens.
pub struct Values {
    pub known: Vec<(Vec<u8>, i64)>,
    pub next_unknown: i64,
}

impl Values {
    pub fn new() -> Self {
        Values { known: Vec::new(), next_unknown: -1 }
    }
    pub fn add(&mut self, bytes: &[u8], tok: i64) {
        if !self.known.iter().any(|(b, _)| b == bytes) {
            self.known.push((bytes.to_vec(), tok));
        }
    }
    pub fn tok(&mut self, bytes: &[u8]) -> i64 {
        if let Some((_, t)) = self.known.iter().find(|(b, _)| b == bytes) {
            return *t;
        }
        let t = self.next_unknown;
        self.next_unknown -= 1;
        self.known.push((bytes.to_vec(), t));
        t
    }
}

pub fn drive(a: &Args) -> i32 {
    let out = a.str("out", "/dev/stdout");
    let segments = a.num("segments", 10);
    let ops = a.num("ops", 10);
    let max_nodes = a.num("max_nodes", 10) as usize;
    let mut t = Trace::create(&out);
    let mut rng = common::rng(3);
    let mut next_tok: u64 = 1;
    for seg in 0..segments {
        let rt = net::paused_rt();
        let spec = ClusterSpec {
            n_real: rng.gen_range(1..=max_nodes),
            n_fake: if seg % 4 == 3 { rng.gen_range(1..=2) } else { 0 },
            k: 8,
            request_timeout: Duration::from_secs(2),
            delay_max_ms: [0, 5, 50][rng.gen_range(0..3)],
            p_silent: if seg % 2 == 0 { 0.0 } else { rng.gen_range(0.0..0.4) },
            conn_timeout_mult: 1,
        };
        let hub_rng = common::rng(3000 + seg);
        let mut events: Vec<Value> = Vec::new();
        rt.block_on(async {
            let c = match net::build_cluster(&spec, &mut rng, hub_rng).await {
                Ok(c) => c,
                Err(e) => {
                    eprintln!("cluster: {e}");
                    std::process::exit(2)
                }
            };
            let mut invented = Vec::new();
            add_liars(&c, &mut rng, &mut invented).await;
            c.apply_silence();
            let mut names = Names::new();
            for r in &c.reals {
                names.id(&r.id);
            }
            for f in &c.fakes {
                names.id(&f.0);
            }
            for i in &invented {
                names.id(i);
            }
            let nreal = c.reals.len();
            let nkeys = rng.gen_range(1..=4usize);
            let keys: Vec<[u8; 32]> = (0..nkeys)
                .map(|_| {
                    let mut k = [0u8; 32];
                    rng.fill(&mut k);
                    k
                })
                .collect();
            let mut vals = Values::new();
            events.push(json!({"ev":"Reset","n_real":nreal,"nkeys":nkeys,"topo":c.topo,
                               "silent":c.silent.iter().map(|s| names.id(s)).collect::<Vec<_>>(),
                               "fakes":c.fakes.iter().map(|f| names.id(&f.0)).collect::<Vec<_>>()}));
            for _ in 0..ops {
                let oi = if rng.gen_bool(0.5) { 0 } else { rng.gen_range(0..nreal) };
                let origin = &c.reals[oi];
                if c.silent.contains(&origin.id) {
                    continue;
                }
                let ki = rng.gen_range(0..nkeys);
                let key = keys[ki];
                let seq0 = c.hub.seq();
                let neigh0 = c.hub.connected(&origin.id);
                let mut unreachable: Vec<String> = invented.clone();
                for s in &c.silent {
                    if !neigh0.contains(s) {
                        unreachable.push(s.clone());
                    }
                }
                let initial = origin.mgr.find_closest_nodes_local(&key, 10_000).await;
                let kind = rng.gen_range(0..100);
                let mut ev = json!({"origin":names.id(&origin.id),"key":ki + 1});
                let big = tokio::time::timeout(Duration::from_secs(2 * 300), async {
                    if kind < 45 {
                        // put, sometimes oversized
                        let len = if rng.gen_bool(0.2) { rng.gen_range(513..=600) } else { rng.gen_range(0..=512) };
                        let tok = next_tok;
                        next_tok += 1;
                        let bytes = value_bytes(tok, len);
                        vals.add(&bytes, tok as i64);
                        let via = rng.gen_range(0..10);
                        if via < 7 {
                            let r = origin.mgr.put(key, bytes).await;
                            match r {
                                Ok(DhtNetworkResult::PutSuccess { replicated_to, peer_outcomes, .. }) => json!({"ev":"Put","val":tok,"len":len,"ok":true,
                                    "replicated_to":replicated_to,
                                    "outcomes":peer_outcomes.iter().map(|o| json!([names.id(&o.peer_id), o.success])).collect::<Vec<_>>()}),
                                Ok(other) => json!({"ev":"Put","val":tok,"len":len,"ok":false,"err":format!("{other:?}"),"replicated_to":0,"outcomes":[]}),
                                Err(e) => json!({"ev":"Put","val":tok,"len":len,"ok":false,"err":e.to_string(),"replicated_to":0,"outcomes":[]}),
                            }
                        } else if via < 8 {
                            let r = origin.mgr.store_local(key, bytes).await;
                            json!({"ev":"StoreLocal","val":tok,"len":len,"ok":r.is_ok()})
                        } else {
                            // targeted put at one or two neighbours
                            let mut targets: Vec<String> = neigh0.clone();
                            targets.truncate(2);
                            let r = origin.mgr.put_with_targets(key, bytes, &targets).await;
                            match r {
                                Ok(DhtNetworkResult::PutSuccess { replicated_to, peer_outcomes, .. }) => json!({"ev":"PutTargets","val":tok,"len":len,"ok":true,
                                    "targets":targets.iter().map(|x| names.id(x)).collect::<Vec<_>>(),"replicated_to":replicated_to,
                                    "outcomes":peer_outcomes.iter().map(|o| json!([names.id(&o.peer_id), o.success])).collect::<Vec<_>>()}),
                                Ok(_) => json!({"ev":"PutTargets","val":tok,"len":len,"ok":false,"targets":[],"replicated_to":0,"outcomes":[]}),
                                Err(_) => json!({"ev":"PutTargets","val":tok,"len":len,"ok":false,"targets":[],"replicated_to":0,"outcomes":[]}),
                            }
                        }
                    } else if kind < 90 {
                        let r = origin.mgr.get(&key).await;
                        match r {
                            Ok(DhtNetworkResult::GetSuccess { value, source, .. }) => {
                                json!({"ev":"Get","found":true,"val":vals.tok(&value),"len":value.len(),"source":names.id(&source),"err":""})
                            }
                            Ok(DhtNetworkResult::GetNotFound { peers_queried, peers_failed, .. }) => {
                                json!({"ev":"Get","found":false,"val":0,"len":0,"source":0,"peers_queried":peers_queried,"peers_failed":peers_failed,"err":""})
                            }
                            Ok(other) => json!({"ev":"Get","found":false,"val":0,"len":0,"source":0,"err":format!("{other:?}")}),
                            Err(e) => json!({"ev":"Get","found":false,"val":0,"len":0,"source":0,"err":e.to_string()}),
                        }
                    } else {
                        // raw remote PUT (possibly oversized) sent to a neighbour through the public request API
                        let len = if rng.gen_bool(0.5) { rng.gen_range(513..=600) } else { rng.gen_range(0..=512) };
                        let tok = next_tok;
                        next_tok += 1;
                        let bytes = value_bytes(tok, len);
                        vals.add(&bytes, tok as i64);
                        let target = neigh0.first().cloned();
                        match target {
                            Some(p) => {
                                let r = origin.mgr.send_request(&p, DhtNetworkOperation::Put { key, value: bytes }).await;
                                json!({"ev":"RemotePut","val":tok,"len":len,"to":names.id(&p),"ok":matches!(r, Ok(DhtNetworkResult::PutSuccess{..}))})
                            }
                            None => json!({"ev":"Noop"}),
                        }
                    }
                })
                .await;
                net::settle().await;
                let opev = match big {
                    Ok(v) => v,
                    Err(_) => json!({"ev":"Hang"}),
                };
                if let (Some(x), Some(y)) = (ev.as_object_mut(), opev.as_object()) {
                    for (k, v) in y {
                        x.insert(k.clone(), v.clone());
                    }
                }
                let frames = c.hub.frames_since(seq0);
                let tr = transcript(&frames, &origin.id);
                let reqs: Vec<Value> = tr
                    .iter()
                    .map(|(to, op, outc, nodes, value)| {
                        json!({"to":names.id(to),"op":op,"out":outc,"nodes":nodes.iter().map(|x| names.id(x)).collect::<Vec<_>>(),
                               "val": value.as_ref().map(|b| vals.tok(b)).unwrap_or(0)})
                    })
                    .collect();
                let rank = names.ranks(&key);
                let me = names.id(&origin.id);
                let init: Vec<usize> = initial.iter().map(|n| names.id(&n.peer_id)).collect();
                let unr: Vec<usize> = unreachable.iter().map(|x| names.id(x)).collect();
                if let Some(x) = ev.as_object_mut() {
                    x.insert("reqs".into(), json!(reqs));
                    x.insert("rank".into(), json!(rank));
                    x.insert("self".into(), json!(me));
                    x.insert("initial".into(), json!(init));
                    x.insert("unreachable".into(), json!(unr));
                    x.insert("k".into(), json!(8));
                }
                events.push(ev);
                // ground truth: every real node's local store, every key
                let mut stores = Vec::new();
                for r in &c.reals {
                    let mut row = Vec::new();
                    for k in &keys {
                        let v = r.mgr.get_local(k).await.ok().flatten();
                        row.push(match v {
                            None => 0,
                            Some(b) => vals.tok(&b),
                        });
                    }
                    stores.push(row);
                }
                events.push(json!({"ev":"Stores","stores":stores}));
            }
            c.shutdown().await;
        });
        drop(rt);
        for e in events {
            t.ev(e);
        }
    }
    // engine-level store paths with the size limit (no network)
    let rt = common::rt();
    rt.block_on(async {
        for i in 0..40u64 {
            let len: usize = [0usize, 1, 511, 512, 513, 514, 600, 4096][(i % 8) as usize];
            let mut eng = DhtCoreEngine::new(NodeId::from_bytes([7u8; 32])).expect("engine");
            let key = DhtKey::from_bytes([i as u8; 32]);
            let bytes = value_bytes(i + 1, len);
            let r1 = eng.store(&key, bytes.clone()).await.map(|r| r.is_successful()).unwrap_or(false);
            let held1 = eng.retrieve(&key).await.ok().flatten().is_some();
            let eng2 = DhtCoreEngine::new(NodeId::from_bytes([9u8; 32])).expect("engine");
            let resp = eng2
                .handle_request(DhtRequestWrapper { id: "x".into(), message: DhtMessage::Store { key: key.clone(), value: bytes.clone(), ttl: Duration::from_secs(60) } })
                .await
                .response;
            let r2 = matches!(resp, DhtResponse::StoreAck { .. });
            let held2 = eng2.retrieve(&key).await.ok().flatten().is_some();
            let r3 = eng2.store_local(&DhtKey::from_bytes([200u8; 32]), bytes.clone()).await.is_ok();
            let held3 = eng2.retrieve(&DhtKey::from_bytes([200u8; 32])).await.ok().flatten().is_some();
            t.ev(json!({"ev":"EngineStore","len":len,"paths":[["store",r1,held1],["handle_request",r2,held2],["store_local",r3,held3]]}));
        }
    });
    let n = t.finish();
    eprintln!("c03 drive: {n} events");
    0
}
