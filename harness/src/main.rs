//! scverif - conformance harness binding the TLA+ specifications in /verif/spec to saorsa-core.
//! Usage: scverif <module> <command> [key=value ...]
mod common;
mod alloc;
mod c01;
mod c02;
mod c03;
mod c04;
mod c05;
mod c06;
mod c08;
mod c09;
mod c10;
mod c11;
mod c12;
mod c13;
mod c14;
mod c15;
mod c16;
mod c17;
mod c18;
mod c19;
mod c20;
mod fswatch;
mod net;
mod sched;
mod refresh;
mod upgrade;
mod contact;
mod resource;
mod nodeage;
mod regen;
mod cachepol;
mod tgroup;
mod sybil;
mod tl;

fn main() {
    let args: Vec<String> = std::env::args().collect();
    if args.len() < 3 {
        eprintln!("usage: scverif <module> <command> [key=value ...]");
        std::process::exit(2);
    }
    let kv = common::Args::parse(&args[3..]);
    // A panic that escapes a driver comes from the code under test (the drivers use process::exit(2)
    // for environment problems): it is data, reported with exit code 3 and a PANIC line.
    let module = args[1].clone();
    let command = args[2].clone();
    let r = std::panic::catch_unwind(std::panic::AssertUnwindSafe(|| run(&module, &command, &kv)));
    match r {
        Ok(rc) => std::process::exit(rc),
        Err(e) => {
            let msg = if let Some(s) = e.downcast_ref::<&str>() {
                s.to_string()
            } else if let Some(s) = e.downcast_ref::<String>() {
                s.clone()
            } else {
                "panic".to_string()
            };
            eprintln!("PANIC {module} {command}: {msg}");
            std::process::exit(3);
        }
    }
}

fn run(module: &str, command: &str, kv: &common::Args) -> i32 {
    match (module, command) {
        ("c01", "drive") => c01::drive(kv),
        ("c01", "replay") => c01::replay(kv),
        ("c02", "drive") => c02::drive(kv),
        ("c02", "replay") => c02::replay(kv),
        ("c03", "drive") => c03::drive(kv),
        ("c04", "drive") => c04::drive(kv),
        ("c05", "drive") => c05::drive(kv),
        ("c06", "drive") => c06::drive(kv),
        ("c08", "drive") => c08::drive(kv),
        ("c09", "drive") => c09::drive(kv),
        ("c18", "drive") => c18::drive(kv),
        ("c19", "drive") => c19::drive(kv),
        ("c19", "show") => c19::show(kv),
        ("c10", "drive") => c10::drive(kv),
        ("c10", "race") => c10::race(kv),
        ("c11", "drive") => c11::drive(kv),
        ("c12", "drive") => c12::drive(kv),
        ("c12", "conc") => c12::conc(kv),
        ("c13", "drive") => c13::drive(kv),
        ("c14", "drive") => c14::drive(kv),
        ("c15", "drive") => c15::drive(kv),
        ("c16", "drive") => c16::drive(kv),
        ("c17", "drive") => c17::drive(kv),
        ("c20", "drive") => c20::drive(kv),
        ("tl", "drive") => tl::drive(kv),
        ("sched", "drive") => sched::drive(kv),
        ("refresh", "drive") => refresh::drive(kv),
        ("upgrade", "drive") => upgrade::drive(kv),
        ("contact", "drive") => contact::drive(kv),
        ("resource", "drive") => resource::drive(kv),
        ("nodeage", "drive") => nodeage::drive(kv),
        ("regen", "drive") => regen::drive(kv),
        ("cachepol", "drive") => cachepol::drive(kv),
        ("tgroup", "drive") => tgroup::drive(kv),
        ("sybil", "drive") => sybil::drive(kv),
        (m, c) => {
            eprintln!("unknown module/command {m} {c}");
            2
        }
    }
}
