//! C13 driver: admission histories of the real code at four levels -
//!  "enforcer"  IPDiversityEnforcer (can_accept_unified / add_unified / remove_unified / set_network_size,
//!              get_diversity_stats) with default, testnet, permissive and random small configurations and
//!              candidates carrying arbitrary ASN / hosting / VPN attributes,
//!  "engine"    DhtCoreEngine::add_node / evict_node / handle_node_failure (default configuration),
//!  "bootstrap" BootstrapManager::add_peer,
//!  "connect"   a real DhtNetworkManager on the in-memory transport whose accept path registers inbound peers.
//! Oracle: spec/Trace_Admission.tla.  Trusted base of this file: `cand` (level keys from the address octets),
//! `cfg_json` (caps clipped to 10^8, fraction as ppm), error classification by message text.
use crate::common::{self, Args, Trace};
use rand::Rng;
use saorsa_core::bootstrap::manager::{BootstrapManager, CacheConfig};
use saorsa_core::dht::core_engine::{DhtCoreEngine, DhtKey, NodeCapacity, NodeId, NodeInfo};
use saorsa_core::dht::routing_maintenance::EvictionReason;
use saorsa_core::dht::routing_maintenance::close_group_validator::CloseGroupValidationResult;
use saorsa_core::rate_limit::JoinRateLimiterConfig;
use saorsa_core::security::{IPDiversityConfig, IPDiversityEnforcer, UnifiedIPAnalysis};
use serde_json::{Value, json};
use std::net::{IpAddr, Ipv4Addr, Ipv6Addr, SocketAddr};
use std::sync::Arc;
use std::time::{Duration, SystemTime};

fn cand(ip: Option<IpAddr>, asn: Option<u32>, host: bool) -> Value {
    match ip {
        Some(IpAddr::V4(a)) => {
            let o = a.octets();
            json!({"fam":4,"a":format!("{}.{}",o[0],o[1]),"b":format!("{}",o[2]),"c":format!("{}",o[3]),"asn":asn.unwrap_or(0),"host":host})
        }
        Some(IpAddr::V6(a)) => {
            let o = a.octets();
            json!({"fam":6,"a":hex::encode(&o[0..4]),"b":hex::encode(&o[4..6]),"c":hex::encode(&o[6..8]),"asn":asn.unwrap_or(0),"host":host})
        }
        None => json!({"fam":0,"a":"","b":"","c":"","asn":0,"host":false}),
    }
}

fn clip(x: usize) -> u64 {
    (x as u64).min(100_000_000)
}

fn cfg_json(c: &IPDiversityConfig, ppm: u64) -> Value {
    json!({"c64":clip(c.max_nodes_per_64),"c48":clip(c.max_nodes_per_48),"c32":clip(c.max_nodes_per_32),"asn":clip(c.max_nodes_per_asn),
           "ipcap":clip(c.max_per_ip_cap),"ppm":ppm,"ip32":clip(c.max_nodes_per_ipv4_32),"c24":clip(c.max_nodes_per_ipv4_24),"c16":clip(c.max_nodes_per_ipv4_16)})
}

fn ppm_of(f: f64) -> u64 {
    (f * 1_000_000.0).round() as u64
}

fn pool_ip(rng: &mut impl Rng, spread: u8) -> IpAddr {
    if rng.gen_bool(0.5) {
        IpAddr::V4(Ipv4Addr::new(10, rng.gen_range(1..=2), rng.gen_range(0..spread), rng.gen_range(1..=spread + 1)))
    } else {
        let mut o = [0u8; 16];
        o[0] = 0x20;
        o[1] = 0x01;
        o[3] = rng.gen_range(0..2);
        o[5] = rng.gen_range(0..2);
        o[7] = rng.gen_range(0..spread);
        o[15] = rng.gen_range(1..5);
        if rng.gen_bool(0.1) {
            o[8] = rng.r#gen();
        }
        IpAddr::V6(Ipv6Addr::from(o))
    }
}

fn stats(t: &mut Trace, e: &IPDiversityEnforcer) {
    let s = e.get_diversity_stats();
    t.ev(json!({"ev":"Stats","mx":[s.max_nodes_per_64,s.max_nodes_per_48,s.max_nodes_per_32,s.max_nodes_per_ipv4_32,s.max_nodes_per_ipv4_24,s.max_nodes_per_ipv4_16],
                "tot":[s.total_64_subnets,s.total_48_subnets,s.total_32_subnets,s.total_ipv4_32,s.total_ipv4_24_subnets,s.total_ipv4_16_subnets]}));
}

fn enforcer_segment(t: &mut Trace, rng: &mut impl Rng, seg: u64, ops: u64) {
    let small = |r: &mut dyn FnMut(std::ops::Range<usize>) -> usize| IPDiversityConfig {
        max_nodes_per_64: r(1..4), max_nodes_per_48: r(1..6), max_nodes_per_32: r(1..9),
        max_nodes_per_ipv4_32: r(1..4), max_nodes_per_ipv4_24: r(1..7), max_nodes_per_ipv4_16: r(1..12),
        max_per_ip_cap: r(1..6), max_network_fraction: 0.005, max_nodes_per_asn: r(1..7),
        enable_geolocation_check: false, min_geographic_diversity: 0,
    };
    let mut cfg = match seg % 6 {
        0 => IPDiversityConfig::default(),
        1 => IPDiversityConfig::testnet(),
        2 => IPDiversityConfig::permissive(),
        _ => small(&mut |r| rng.gen_range(r)),
    };
    if seg % 6 >= 3 {
        cfg.max_network_fraction = [0.005, 0.1, 0.5, 0.25, 1.0][rng.gen_range(0..5)];
    }
    let ppm = ppm_of(cfg.max_network_fraction);
    // network sizes away from the points where floor(size * fraction) changes (f64 rounding is not modelled)
    let sizes: Vec<usize> = if ppm == 100_000 { vec![0, 1, 7, 19, 33, 451, 777, 1251, 1999] } else if ppm == 5000 { vec![0, 1, 150, 333, 450, 777, 1250, 1999] } else { vec![0, 1, 2, 3, 5, 9, 30, 500, 1999] };
    let ns0 = sizes[rng.gen_range(0..sizes.len())];
    let mut e = IPDiversityEnforcer::new(cfg.clone());
    e.set_network_size(ns0);
    t.ev(json!({"ev":"Reset","api":"enforcer","cfg":cfg_json(&cfg, ppm),"ns":ns0}));
    let spread: u8 = rng.gen_range(1..4);
    let mut admitted: Vec<(u64, UnifiedIPAnalysis)> = Vec::new();
    let mut next_id = 1u64;
    for _ in 0..ops {
        match rng.gen_range(0..100) {
            0..=64 => {
                let ip = pool_ip(rng, spread);
                let asn = match rng.gen_range(0..4) { 0 => None, 1 => Some(64500u32), 2 => Some(64501), _ => Some(64500) };
                let (h, v) = match rng.gen_range(0..10) { 0..=5 => (false, false), 6 | 7 => (true, false), 8 => (false, true), _ => (true, true) };
                let mut an = match e.analyze_unified(ip) {
                    Ok(a) => a,
                    Err(_) => continue,
                };
                match &mut an {
                    UnifiedIPAnalysis::IPv4(a) => { a.asn = asn; a.is_hosting_provider = h; a.is_vpn_provider = v; }
                    UnifiedIPAnalysis::IPv6(a) => { a.asn = asn; a.is_hosting_provider = h; a.is_vpn_provider = v; }
                }
                let x = cand(Some(ip), asn, h || v);
                if rng.gen_bool(0.2) {
                    let ok = e.can_accept_unified(&an);
                    t.ev(json!({"ev":"Can","x":x,"ok":ok,"via":"can_accept_unified"}));
                } else {
                    let r = common::catch(std::panic::AssertUnwindSafe(|| e.add_unified(&an)));
                    match r {
                        Ok(r) => {
                            let ok = r.is_ok();
                            t.ev(json!({"ev":"Add","x":x,"id":next_id,"ok":ok,"err":if ok {""} else {"ip"},"via":"add_unified"}));
                            if ok {
                                admitted.push((next_id, an));
                            }
                            next_id += 1;
                        }
                        Err(m) => t.ev(json!({"ev":"Panic","via":"add_unified","msg":m})),
                    }
                }
            }
            65..=86 => {
                if !admitted.is_empty() {
                    let i = rng.gen_range(0..admitted.len());
                    let (id, an) = admitted.swap_remove(i);
                    e.remove_unified(&an);
                    t.ev(json!({"ev":"Rm","id":id,"via":"remove_unified"}));
                }
            }
            _ => {
                let ns = sizes[rng.gen_range(0..sizes.len())];
                e.set_network_size(ns);
                t.ev(json!({"ev":"SetNet","ns":ns}));
            }
        }
        stats(t, &e);
    }
}

// ------------------------------------------------------------------------------------------ engine
fn err_class(m: &str) -> &'static str {
    if m.contains("K-bucket") || m.contains("capacity") { "bucket" }
    else if m.contains("eographic") { "region" }
    else if m.contains("close group") { "validator" }
    else if m.contains("diversity") { "ip" }
    else { "other" }
}

struct Eng {
    eng: DhtCoreEngine,
}

/// identity i: bucket (i / 16) of a table whose own id is all zero - the first set bit decides the bucket
fn ident(i: u64) -> NodeId {
    let bucket = (i / 16) as usize;
    let mut b = [0u8; 32];
    b[bucket / 8] |= 1u8 << (7 - (bucket % 8));
    b[31] = (i % 16) as u8 + 1;
    b[30] = (i / 16) as u8;
    NodeId::from_bytes(b)
}

impl Eng {
    async fn add(&mut self, t: &mut Trace, i: u64, ip: Option<IpAddr>, form: &str) {
        let id = ident(i);
        {
            let v = self.eng.close_group_validator();
            let g = v.read().await;
            let mut res = CloseGroupValidationResult::new(id.clone());
            res.is_valid = true;
            g.cache_result(res);
        }
        let address = match (ip, form) {
            (Some(ip), "plain") => SocketAddr::new(ip, 9000 + (i as u16 % 1000)).to_string(),
            (Some(ip), _) => ip.to_string(),
            (None, _) => format!("verif-opaque-{i}"),
        };
        let node = NodeInfo { id, address, last_seen: SystemTime::now(), capacity: NodeCapacity::default() };
        let r = self.eng.add_node(node).await;
        let (ok, err) = match &r { Ok(()) => (true, ""), Err(e) => (false, err_class(&e.to_string())) };
        t.ev(json!({"ev":"Add","x":cand(ip, None, false),"id":i,"ok":ok,"err":err,"via":"add_node","form":form}));
    }
    async fn rm(&mut self, t: &mut Trace, i: u64, fail: bool) {
        if fail {
            let _ = self.eng.handle_node_failure(ident(i)).await;
            t.ev(json!({"ev":"Rm","id":i,"via":"handle_node_failure"}));
        } else {
            let _ = self.eng.evict_node(&ident(i), EvictionReason::Stale).await;
            t.ev(json!({"ev":"Rm","id":i,"via":"evict_node"}));
        }
    }
}

fn v4(a: u8, b: u8, c: u8, d: u8) -> Option<IpAddr> {
    Some(IpAddr::V4(Ipv4Addr::new(a, b, c, d)))
}

async fn engine_segment(t: &mut Trace, rng: &mut impl Rng, seg: u64, ops: u64) {
    let eng = match DhtCoreEngine::new(NodeId::from_bytes([0u8; 32])) {
        Ok(e) => e,
        Err(e) => {
            eprintln!("engine: {e}");
            std::process::exit(2)
        }
    };
    let cfg = IPDiversityConfig::default();
    let scenario = seg % 6;
    t.ev(json!({"ev":"Reset","api":"engine","cfg":cfg_json(&cfg, ppm_of(cfg.max_network_fraction)),"ns":0,"scenario":scenario}));
    let mut e = Eng { eng };
    let fail = rng.gen_bool(0.5);
    match scenario {
        0 => {
            // a removed node's address is offered again by another node
            // (every other time under its IPv4-mapped IPv6 notation: an address of its own as far as admission and release go)
            let o = rng.gen_range(1..200);
            let ip = if (seg / 6) % 2 == 0 { v4(20, o, 1, 1) } else { Some(IpAddr::V6(Ipv4Addr::new(20, o, 1, 1).to_ipv6_mapped())) };
            e.add(t, 1, ip, "plain").await;
            e.rm(t, 1, fail).await;
            e.add(t, 17, ip, "plain").await;
            e.rm(t, 17, !fail).await;
            e.add(t, 33, ip, if fail { "plain" } else { "ip" }).await;
        }
        1 => {
            // ninth node of a full bucket, then its address from a node of another bucket
            for i in 0..8u64 {
                e.add(t, i, v4(30 + i as u8, 1, 1, 1), "plain").await;
            }
            let ip = v4(50, 1, 1, 1);
            e.add(t, 8, ip, "plain").await;
            e.add(t, 16, ip, if fail { "plain" } else { "ip" }).await;
        }
        2 => {
            // a listed node is seen again under other addresses of one /24, then a newcomer from that /24
            let o = rng.gen_range(1..200);
            e.add(t, 1, v4(60, o, 1, 1), "plain").await;
            e.add(t, 1, v4(60, o, 1, 2), "plain").await;
            e.add(t, 1, v4(60, o, 1, 3), "plain").await;
            e.add(t, 17, v4(60, o, 1, 4), "plain").await;
        }
        5 => {
            // the regional gate refuses part-way: one region (first octets 248..251) is filled to its cap with nodes that share
            // no address level (own /16 each, seven buckets), the next candidate is refused by the regional gate AFTER the
            // address gate passed; then a node leaves and the refused address is offered again
            let n_fill = 50u64;
            for n in 0..n_fill {
                let i = (n / 8) * 16 + n % 8;
                e.add(t, i, v4(248 + (n % 4) as u8, 1 + (n / 4) as u8, 1, 1), "plain").await;
            }
            let extra = v4(248 + rng.gen_range(0..4), 200 + rng.gen_range(0..50), 1, 1);
            let spare = (n_fill / 8) * 16 + n_fill % 8;
            e.add(t, spare, extra, "plain").await;
            if rng.gen_bool(0.5) {
                e.add(t, spare + 1, extra, "plain").await;
            }
            let gone = rng.gen_range(0..n_fill);
            e.rm(t, (gone / 8) * 16 + gone % 8, fail).await;
            e.add(t, spare + 2, extra, "plain").await;
        }
        _ => {
            // random history over small pools: caps bind, buckets fill, nodes come and go
            let spread: u8 = rng.gen_range(2..4);
            let mut present: Vec<u64> = Vec::new();
            for _ in 0..ops.min(45) {
                match rng.gen_range(0..10) {
                    0..=6 => {
                        let i = rng.gen_range(0..40u64);
                        let ip = if rng.gen_bool(0.08) { None } else { Some(pool_ip(rng, spread)) };
                        e.add(t, i, ip, if rng.gen_bool(0.7) { "plain" } else { "ip" }).await;
                        if !present.contains(&i) {
                            present.push(i);
                        }
                    }
                    _ => {
                        if !present.is_empty() {
                            let k = rng.gen_range(0..present.len());
                            let i = present.swap_remove(k);
                            e.rm(t, i, rng.gen_bool(0.5)).await;
                        }
                    }
                }
            }
        }
    }
}

// --------------------------------------------------------------------------------------- bootstrap
async fn bootstrap_segment(t: &mut Trace, rng: &mut impl Rng, dir: &std::path::Path, seg: u64) {
    let cfg = IPDiversityConfig::default();
    let cache = CacheConfig { cache_dir: dir.join(format!("boot{seg}")), ..CacheConfig::default() };
    let rate = JoinRateLimiterConfig { max_joins_per_64_per_hour: 10_000, max_joins_per_48_per_hour: 10_000, max_joins_per_24_per_hour: 10_000,
                                       max_global_joins_per_minute: 1_000_000, global_burst_size: 100_000 };
    let mgr = match BootstrapManager::with_full_config(cache, rate, cfg.clone()).await {
        Ok(m) => m,
        Err(e) => {
            eprintln!("bootstrap manager: {e}");
            std::process::exit(2)
        }
    };
    t.ev(json!({"ev":"Reset","api":"bootstrap","cfg":cfg_json(&cfg, ppm_of(cfg.max_network_fraction)),"ns":0}));
    for i in 0..12u64 {
        // every peer comes from its own /16 (IPv4) or /32 (IPv6): no level is shared
        let ip: IpAddr = if i % 3 != 2 {
            IpAddr::V4(Ipv4Addr::new(40 + i as u8, rng.gen_range(1..250), rng.gen_range(1..250), rng.gen_range(1..250)))
        } else {
            let mut o = [0u8; 16];
            o[0] = 0x2a;
            o[1] = i as u8;
            o[2] = rng.r#gen();
            o[15] = 1;
            IpAddr::V6(Ipv6Addr::from(o))
        };
        let mut pid = [0u8; 32];
        rng.fill(&mut pid);
        let r = mgr.add_peer(hex::encode(pid), vec![SocketAddr::new(ip, 9000)]).await;
        let (ok, err) = match &r {
            Ok(()) => (true, "".to_string()),
            Err(e) => {
                let m = e.to_string();
                (false, if m.contains("diversity") { "ip".to_string() } else if m.contains("rate limit") { "ratelimit".to_string() } else { "other".to_string() })
            }
        };
        t.ev(json!({"ev":"Add","x":cand(Some(ip), None, false),"id":i+1,"ok":ok,"err":err,"via":"add_peer"}));
    }
}

// ----------------------------------------------------------------------------------------- connect
struct NullNet;
#[async_trait::async_trait]
impl saorsa_core::transport_handle::VerifNet for NullNet {
    async fn deliver(&self, _from: &str, _to: &str, _frame: Vec<u8>) -> Result<(), String> {
        Ok(())
    }
    async fn connect(&self, _from: &str, _from_addr: &str, _address: &str) -> Result<String, String> {
        Err("no route".into())
    }
}

async fn connect_segment(t: &mut Trace, rng: &mut impl Rng) {
    use saorsa_core::dht::DHTConfig;
    use saorsa_core::dht_network_manager::{DhtNetworkConfig, DhtNetworkManager};
    use saorsa_core::network::NodeConfig;
    use saorsa_core::transport_handle::{TransportHandle, VerifNet};
    let mut idb = [0u8; 32];
    rng.fill(&mut idb);
    let id = hex::encode(idb);
    let addr = "99.1.1.1:9000";
    let tr = Arc::new(TransportHandle::verif_new_in_memory(id.clone(), id.clone(), addr.to_string(), Arc::new(NullNet) as Arc<dyn VerifNet>, Duration::from_secs(5)));
    if let Err(e) = tr.start_network_listeners().await {
        eprintln!("listeners: {e}");
        std::process::exit(2)
    }
    let mut node_config = NodeConfig::default();
    if let Ok(sa) = addr.parse::<SocketAddr>() {
        node_config.listen_addr = sa;
    }
    let cfg = DhtNetworkConfig { local_peer_id: id.clone(), dht_config: DHTConfig::default(), node_config, request_timeout: Duration::from_secs(5),
                                 max_concurrent_operations: 64, replication_factor: 8, enable_security: false };
    let mgr = match DhtNetworkManager::new(tr.clone(), None, cfg).await {
        Ok(m) => Arc::new(m),
        Err(e) => {
            eprintln!("manager: {e}");
            std::process::exit(2)
        }
    };
    if let Err(e) = mgr.start().await {
        eprintln!("manager start: {e}");
        std::process::exit(2)
    }
    let dc = IPDiversityConfig::default();
    t.ev(json!({"ev":"Reset","api":"connect","cfg":cfg_json(&dc, ppm_of(dc.max_network_fraction)),"ns":0}));
    // ten peers of one /24 plus two of other networks connect to the node
    let o = rng.gen_range(1..200u8);
    let mut keys: Vec<[u8; 32]> = Vec::new();
    for i in 0..12u64 {
        let ip = if i < 10 { Ipv4Addr::new(70, o, 5, 10 + i as u8) } else { Ipv4Addr::new(80 + i as u8, 2, 3, 4) };
        let mut pb = [0u8; 32];
        rng.fill(&mut pb);
        let pid = hex::encode(pb);
        keys.push(saorsa_core::dht::derive_dht_key_from_peer_id(&pid));
        tr.verif_accept(&pid, SocketAddr::new(IpAddr::V4(ip), 9100 + i as u16)).await;
        t.ev(json!({"ev":"Connect","id":i+1,"x":cand(Some(IpAddr::V4(ip)), None, false),"via":"accept"}));
        for _ in 0..50 {
            tokio::task::yield_now().await;
        }
        tokio::time::sleep(Duration::from_millis(5)).await;
    }
    for _ in 0..200 {
        tokio::task::yield_now().await;
    }
    tokio::time::sleep(Duration::from_millis(50)).await;
    let core = mgr.verif_core();
    let nodes = core.read().await.find_nodes(&DhtKey::from_bytes([0u8; 32]), 1000).await.unwrap_or_default();
    let ids: Vec<u64> = nodes.iter().filter_map(|n| keys.iter().position(|k| k == n.id.as_bytes()).map(|p| p as u64 + 1)).collect();
    let addrs: Vec<String> = nodes.iter().map(|n| n.address.clone()).collect();
    t.ev(json!({"ev":"Table","ids":ids,"via":"handle_peer_connected","addresses":addrs}));
    let _ = mgr.stop().await;
}

pub fn drive(a: &Args) -> i32 {
    let out = a.str("out", "/dev/stdout");
    let segments = a.num("segments", 30);
    let ops = a.num("ops", 60);
    let mut t = Trace::create(&out);
    let mut rng = common::rng(15);
    common::quiet_panics();
    let tmp = tempfile::tempdir().expect("tempdir");
    for seg in 0..segments {
        enforcer_segment(&mut t, &mut rng, seg, ops);
    }
    let rt = common::rt();
    rt.block_on(async {
        for seg in 0..segments {
            engine_segment(&mut t, &mut rng, seg, ops).await;
        }
        for seg in 0..2 {
            bootstrap_segment(&mut t, &mut rng, tmp.path(), seg).await;
        }
    });
    let prt = tokio::runtime::Builder::new_current_thread().enable_all().start_paused(true).build().expect("runtime");
    prt.block_on(async {
        connect_segment(&mut t, &mut rng).await;
    });
    let n = t.finish();
    eprintln!("c13 drive: {n} events");
    0
}
