//! C15 driver: calls the real `CloseGroupValidator::validate_membership` on enumerated / seeded
//! witness vectors (both modes, many configurations) and records
//! `[configuration, mode, candidate trust, witness vector, verdict, failure reasons]` together with
//! the verdicts of the one-flip neighbours (one confirmation turned into a denial).
//! The oracle is spec/Trace_CloseGroup.tla (P-level clauses of CloseGroupRules.tla).
//!
//! Trusted base of this file (projections, no expected values):
//!  * trust values and thresholds are constructed as `n as f64 / d as f64` from the logged
//!    integers (per-mille trust; thresholds as the rational num/den), so the logged integers
//!    are the exact pre-images of the floats the code sees;
//!  * regions are strings "r<k>" logged as the token k (0 = None);
//!  * latencies are `Duration::from_micros(l)` logged as l.
use crate::common::{self, Args, Trace};
use rand::Rng;
use rand::seq::SliceRandom;
use saorsa_core::dht::core_engine::NodeId;
use saorsa_core::dht::routing_maintenance::close_group_validator::{
    AttackIndicators, CloseGroupEnforcementMode, CloseGroupFailure, CloseGroupResponse, CloseGroupValidationResult,
    CloseGroupValidator, CloseGroupValidatorConfig,
};
use saorsa_core::dht::routing_maintenance::MaintenanceConfig;
use serde_json::{Value, json};
use std::panic::AssertUnwindSafe;
use std::time::{Duration, Instant};

#[derive(Clone, Debug)]
struct Wit {
    c: bool,
    t: i64, // per-mille, -1 = None
    r: i64, // 0 = None
    l: u64, // microseconds
}

#[derive(Clone, Debug)]
struct Cfg {
    min_peers: usize,
    tw: (i64, i64),
    bft: (i64, i64),
    min_trust: i64,
    min_regions: usize,
    strict: bool,
}

fn permille(x: f64) -> i64 {
    let n = (x * 1000.0).round() as i64;
    if n as f64 / 1000.0 != x {
        eprintln!("c15: value {x} is not a per-mille float; cannot log it exactly");
        std::process::exit(2);
    }
    n
}

fn build_cfg(c: &Cfg) -> CloseGroupValidatorConfig {
    CloseGroupValidatorConfig {
        min_peers_to_query: c.min_peers,
        max_peers_to_query: c.min_peers + 5,
        trust_weighted_threshold: c.tw.0 as f64 / c.tw.1 as f64,
        bft_threshold: c.bft.0 as f64 / c.bft.1 as f64,
        min_witness_trust: c.min_trust as f64 / 1000.0,
        min_regions: c.min_regions,
        query_timeout: Duration::from_secs(5),
        auto_escalate: true,
        enforcement_mode: if c.strict { CloseGroupEnforcementMode::Strict } else { CloseGroupEnforcementMode::LogOnly },
    }
}

/// Read a library-made configuration back into logged integers (bft threshold given separately
/// when it is not a per-mille value).
fn read_cfg(k: &CloseGroupValidatorConfig, bft: Option<(i64, i64)>) -> Cfg {
    Cfg {
        min_peers: k.min_peers_to_query,
        tw: (permille(k.trust_weighted_threshold), 1000),
        bft: bft.unwrap_or_else(|| (permille(k.bft_threshold), 1000)),
        min_trust: permille(k.min_witness_trust),
        min_regions: k.min_regions,
        strict: k.enforcement_mode.is_strict(),
    }
}

fn response(w: &Wit) -> CloseGroupResponse {
    CloseGroupResponse {
        peer_id: NodeId::random(),
        confirms_membership: w.c,
        peer_trust_score: if w.t < 0 { None } else { Some(w.t as f64 / 1000.0) },
        peer_region: if w.r == 0 { None } else { Some(format!("r{}", w.r)) },
        response_latency: Duration::from_micros(w.l),
        received_at: Instant::now(),
    }
}

fn reason(f: &CloseGroupFailure) -> &'static str {
    match f {
        CloseGroupFailure::NotInCloseGroup => "NotInCloseGroup",
        CloseGroupFailure::EvictedFromCloseGroup => "EvictedFromCloseGroup",
        CloseGroupFailure::InsufficientConfirmation => "InsufficientConfirmation",
        CloseGroupFailure::LowTrustScore => "LowTrustScore",
        CloseGroupFailure::InsufficientGeographicDiversity => "InsufficientGeographicDiversity",
        CloseGroupFailure::SuspectedCollusion => "SuspectedCollusion",
        CloseGroupFailure::AttackModeTriggered => "AttackModeTriggered",
    }
}

fn verdict_json(r: &CloseGroupValidationResult) -> Value {
    json!({"valid": r.is_valid, "reasons": r.failure_reasons.iter().map(reason).collect::<Vec<_>>(),
           "usedBft": r.used_bft_consensus, "regions": r.confirming_regions})
}

fn call(v: &CloseGroupValidator, id: &NodeId, w: &[Wit], cand: i64) -> Result<CloseGroupValidationResult, String> {
    let rs: Vec<CloseGroupResponse> = w.iter().map(response).collect();
    let ct = if cand < 0 { None } else { Some(cand as f64 / 1000.0) };
    common::catch(AssertUnwindSafe(|| v.validate_membership(id, &rs, ct)))
}

const GRID_T: [i64; 5] = [-1, 100, 290, 300, 900];

/// latencies for n witnesses in one of several shapes
fn latencies(rng: &mut impl Rng, n: usize) -> Vec<u64> {
    let shape = rng.gen_range(0..6);
    let mut v: Vec<u64> = match shape {
        0 => (0..n).map(|i| 20_000 + 10_000 * i as u64).collect(), // exactly the window apart
        1 => (0..n).map(|i| 20_000 + 9_999 * i as u64).collect(),  // just inside the window
        2 => {
            let b = rng.gen_range(0..200_000u64);
            (0..n).map(|_| b + rng.gen_range(0..9_000)).collect() // one cluster
        }
        3 => (0..n).map(|i| 5_000 + (10_000 + rng.gen_range(0..40_000u64)) * (i as u64 + 1)).scan(0u64, |s, d| { *s += d; Some(*s) }).collect(),
        4 => (0..n).map(|_| [0u64, 5_000, 20_000][rng.gen_range(0..3)]).collect(), // the grid's classes
        _ => (0..n).map(|_| rng.gen_range(0..300_000u64)).collect(),
    };
    v.shuffle(rng);
    v
}

fn distinct_latencies(rng: &mut impl Rng, n: usize) -> Vec<u64> {
    let mut cur = rng.gen_range(0..50_000u64);
    let mut v = Vec::new();
    for _ in 0..n {
        v.push(cur);
        cur += if rng.gen_bool(0.4) { 10_000 } else { rng.gen_range(10_000..60_000) };
    }
    v.shuffle(rng);
    v
}

fn gen_case(rng: &mut impl Rng, c: &Cfg, fam: u32) -> (Vec<Wit>, i64, &'static str) {
    let mt = c.min_trust;
    let cand_pool = [-1, (mt - 1).max(0), mt, 100, 900, 1000];
    let mut cand = cand_pool[rng.gen_range(0..cand_pool.len())];
    match fam {
        // the property's grid
        0 => {
            let n = rng.gen_range(0..=10usize);
            let p = [0.0, 0.3, 0.5, 0.7, 0.85, 1.0][rng.gen_range(0..6)];
            let lat = latencies(rng, n);
            let w = (0..n)
                .map(|i| Wit { c: rng.gen_bool(p), t: GRID_T[rng.gen_range(0..5)], r: rng.gen_range(0..5), l: lat[i] })
                .collect();
            (w, cand, "grid")
        }
        // confirmation fraction around the threshold, everything else favourable
        1 => {
            let n = c.min_peers + rng.gen_range(0..8usize);
            let n = n.max(1);
            let exact = (c.bft.0 as usize * n).div_ceil(c.bft.1 as usize);
            let k = (exact as i64 + rng.gen_range(-1..=1)).clamp(0, n as i64) as usize;
            let lat = distinct_latencies(rng, n + 4);
            let mut w: Vec<Wit> = (0..n)
                .map(|i| Wit { c: i < k, t: [mt, 900, 1000, mt + 1][rng.gen_range(0..4)].min(1000), r: 1 + (i as i64 % 5), l: lat[i] })
                .collect();
            for j in 0..rng.gen_range(0..4usize) {
                // witnesses below the trust floor or of unknown trust
                w.push(Wit { c: rng.gen_bool(0.7), t: [-1, (mt - 1).max(0), 0][rng.gen_range(0..3)], r: rng.gen_range(0..7), l: lat[n + j] });
            }
            w.shuffle(rng);
            if rng.gen_bool(0.7) {
                cand = [mt, 900, -1][rng.gen_range(0..3)];
            }
            (w, cand, "fraction")
        }
        // 3f+1 trusted witnesses, f of them answer arbitrarily, the others deny
        2 => {
            let f = rng.gen_range(1..=4usize);
            let n = 3 * f + 1;
            let extra = rng.gen_range(0..5usize);
            let lat = if rng.gen_bool(0.7) { distinct_latencies(rng, n + extra) } else { latencies(rng, n + extra) };
            let mut w: Vec<Wit> = (0..n)
                .map(|i| Wit {
                    c: i < f && rng.gen_bool(0.9),
                    t: [mt, 900, 1000, 650][rng.gen_range(0..4)].max(mt).min(1000),
                    r: if i < f { rng.gen_range(0..8) } else { rng.gen_range(0..5) },
                    l: lat[i],
                })
                .collect();
            for j in 0..extra {
                w.push(Wit { c: true, t: [-1, (mt - 1).max(0), 0][rng.gen_range(0..3)], r: 10 + j as i64, l: lat[n + j] });
            }
            w.shuffle(rng);
            cand = [mt, 900, -1, 1000][rng.gen_range(0..4)];
            (w, cand, "fliars")
        }
        // unanimous confirmation; sometimes exactly one part of the premise is broken
        3 => {
            let n = c.min_peers + rng.gen_range(0..6usize);
            let lat = distinct_latencies(rng, n);
            let regions = c.min_regions.max(1) + rng.gen_range(0..2usize);
            let mut w: Vec<Wit> = (0..n)
                .map(|i| Wit { c: true, t: [mt, mt + 1, 900, 1000][rng.gen_range(0..4)].min(1000), r: 1 + (i % regions) as i64, l: lat[i] })
                .collect();
            cand = [mt, 900, 1000][rng.gen_range(0..3)];
            if !w.is_empty() {
                let i = rng.gen_range(0..w.len());
                match rng.gen_range(0..10) {
                    0 => w[i].t = (mt - 1).max(0),
                    1 => w[i].t = -1,
                    2 => w[i].c = false,
                    3 => w[i].r = 0,
                    4 => {
                        let j = rng.gen_range(0..w.len());
                        if i != j {
                            w[i].l = w[j].l + 9_999;
                        }
                    }
                    5 => cand = (mt - 1).max(0),
                    6 => cand = -1,
                    7 => {
                        w.pop();
                    }
                    _ => {}
                }
            }
            w.shuffle(rng);
            (w, cand, "unanimous")
        }
        // random larger sets with arbitrary per-mille trust
        4 => {
            let n = rng.gen_range(0..=40usize);
            let p = rng.gen_range(0.0..=1.0);
            let lat = latencies(rng, n);
            let w = (0..n)
                .map(|i| Wit {
                    c: rng.gen_bool(p),
                    t: if rng.gen_bool(0.1) { -1 } else { rng.gen_range(0..=1000) },
                    r: rng.gen_range(0..7),
                    l: lat[i],
                })
                .collect();
            (w, cand, "random")
        }
        // trust-weighted share exactly at / next to the threshold (the f64 boundary)
        _ => {
            let (num, den) = c.tw;
            // a*num witnesses confirm and a*(den-num) deny, all with the same weight x, scaled down
            let g = {
                let (mut a, mut b) = (num, den);
                while b != 0 {
                    (a, b) = (b, a % b);
                }
                a
            };
            let (cn, dn) = ((num / g) as usize, ((den - num) / g) as usize);
            let mut w: Vec<Wit> = Vec::new();
            if cn + dn <= 24 {
                let x = [100, 290, 300, 900, 333, 1][rng.gen_range(0..6)];
                let lat = distinct_latencies(rng, cn + dn);
                for i in 0..cn + dn {
                    w.push(Wit { c: i < cn, t: x, r: 1 + (i as i64 % 5), l: lat[i] });
                }
                match rng.gen_range(0..4) {
                    0 => w[0].t += 1,
                    1 => w[cn + dn - 1].t += 1,
                    2 if x > 1 => w[0].t -= 1,
                    _ => {}
                }
                w.shuffle(rng);
            }
            (w, cand, "share")
        }
    }
}

fn set_mode(rng: &mut impl Rng, v: &CloseGroupValidator, bft: bool) {
    if bft {
        match rng.gen_range(0..3) {
            0 => v.set_attack_mode(true),
            1 => v.escalate_to_bft(),
            _ => v.update_attack_indicators(AttackIndicators { eclipse_risk: 0.9, ..Default::default() }),
        }
    } else {
        match rng.gen_range(0..2) {
            0 => v.set_attack_mode(false),
            _ => {
                v.update_attack_indicators(AttackIndicators::default());
                v.deescalate_from_bft();
            }
        }
    }
}

pub fn drive(a: &Args) -> i32 {
    common::quiet_panics();
    let out = a.str("out", "/dev/stdout");
    let per_cfg = a.num("cases", 300);
    let ncfg = a.num("configs", 24) as usize;
    let mut t = Trace::create(&out);
    let mut rng = common::rng(15);

    // configurations: the library's own constructors first, then seeded ones
    let mut cfgs: Vec<(Cfg, CloseGroupValidatorConfig, &'static str)> = Vec::new();
    let d = CloseGroupValidatorConfig::default();
    cfgs.push((read_cfg(&d, None), d, "default"));
    let lo = CloseGroupValidatorConfig::log_only();
    cfgs.push((read_cfg(&lo, None), lo, "log_only"));
    for f in 0..=4usize {
        let m = MaintenanceConfig { bft_fault_tolerance: f, ..Default::default() };
        let k = CloseGroupValidatorConfig::from_maintenance_config(&m);
        let frac = (m.required_confirmations() as i64, m.minimum_witnesses() as i64);
        cfgs.push((read_cfg(&k, Some(frac)), k, "from_maintenance_config"));
    }
    let fracs: [(i64, i64); 10] = [(340, 1000), (500, 1000), (2, 3), (667, 1000), (700, 1000), (710, 1000), (3, 4), (800, 1000), (5, 7), (1, 1)];
    while cfgs.len() < ncfg.max(8) {
        let c = Cfg {
            min_peers: rng.gen_range(1..=8),
            tw: fracs[rng.gen_range(0..fracs.len())],
            bft: fracs[rng.gen_range(0..fracs.len())],
            min_trust: [100, 300, 500, 290, 50][rng.gen_range(0..5)],
            min_regions: rng.gen_range(0..=4),
            strict: rng.gen_bool(0.5),
        };
        let k = build_cfg(&c);
        cfgs.push((c, k, "seeded"));
    }

    for (c, k, origin) in cfgs {
        let v = CloseGroupValidator::new(k);
        t.ev(json!({"ev":"Reset","origin":origin,"strict":c.strict,
            "cfg":{"minPeers":c.min_peers,"twNum":c.tw.0,"twDen":c.tw.1,"bftNum":c.bft.0,"bftDen":c.bft.1,
                   "minTrust":c.min_trust,"minRegions":c.min_regions}}));
        let id = NodeId::random();
        for _ in 0..per_cfg {
            let want_bft = rng.gen_bool(0.6);
            set_mode(&mut rng, &v, want_bft);
            let bft = v.is_attack_mode();
            let fam = [0, 0, 0, 1, 1, 2, 3, 3, 4, 5][rng.gen_range(0..10)];
            let (w, cand, famname) = gen_case(&mut rng, &c, fam);
            let wj: Vec<Value> = w.iter().map(|x| json!({"c":x.c,"t":x.t,"r":x.r,"l":x.l})).collect();
            let base = match call(&v, &id, &w, cand) {
                Ok(r) => r,
                Err(p) => {
                    t.ev(json!({"ev":"Panic","bft":bft,"cand":cand,"w":wj,"fam":famname,"msg":p}));
                    continue;
                }
            };
            // one-flip neighbours (at most 12 of them for large vectors)
            let mut conf: Vec<usize> = (0..w.len()).filter(|&i| w[i].c).collect();
            conf.shuffle(&mut rng);
            conf.truncate(12);
            conf.sort();
            let mut flips: Vec<Value> = Vec::new();
            let mut panicked = None;
            for i in conf {
                let mut w2 = w.clone();
                w2[i].c = false;
                match call(&v, &id, &w2, cand) {
                    Ok(r) => flips.push(json!({"i": i + 1, "v": verdict_json(&r)})),
                    Err(p) => {
                        panicked = Some((i, p));
                        break;
                    }
                }
            }
            if let Some((i, p)) = panicked {
                t.ev(json!({"ev":"Panic","bft":bft,"cand":cand,"w":wj,"fam":famname,"flip":i+1,"msg":p}));
                continue;
            }
            t.ev(json!({"ev":"Validate","bft":bft,"cand":cand,"w":wj,"fam":famname,"v":verdict_json(&base),"flips":flips}));
        }
    }
    let n = t.finish();
    eprintln!("c15 drive: {n} events");
    0
}
