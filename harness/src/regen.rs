//! Identity regeneration driver (specification growth module Regen): seeded random sequences of the public
//! operations of a real `RegenerationTrigger` (src/identity/regeneration.rs), of a stand-alone
//! `RejectionHistory` and of the `RejectionReason` / `RejectionInfo` predicates (src/identity/rejection.rs).
//!
//! Every `Step` logs the operation, its arguments, what it returned and the projected state before and after:
//!   trigger:  {en, fails, bo (current_backoff, microseconds), open (is_circuit_open), natt (attempt_count),
//!              pref (rejected prefixes, sorted byte lists)}
//!   history:  the list `all()` as [reason byte, unix second relative to a fixed origin]
//! A decision is logged with every field it has: {kind, urg, why, c, tgt, rem, secs, att, max}.
//!
//! Time: the trigger reads `std::time::Instant`; the configuration uses delays of tens of milliseconds and
//! every trigger step carries the clock band [t0, t1] (microseconds since the segment started, t0 rounded
//! down before the call, t1 rounded up after it). The history reads `SystemTime` in whole seconds; its steps
//! carry the band [n0, n1] of that second. The acceptor accepts an answer that is right for SOME instant of
//! the band. The driver contains no expected values. Oracle: spec/Trace_Regen.tla with spec/RegenRules.tla.
//!
//! Segment 0 is a fixed script: the operation sequences behind the observations reported for this module.
//! In the random segments a `Proceed` is usually followed by record_attempt / record_result, as a caller would.
//!
//! Trusted base: the table REASONS (variant <-> wire byte), the projection functions, the clock bands.
use crate::common::{self, Args, Trace};
use rand::Rng;
use saorsa_core::identity::NodeId;
use saorsa_core::identity::fitness::{FitnessMetrics, FitnessVerdict};
use saorsa_core::identity::regeneration::{
    BlockReason, RegenerationConfig, RegenerationDecision, RegenerationReason, RegenerationTrigger, RegenerationUrgency,
};
use saorsa_core::identity::rejection::{KeyspaceRegion, RejectionHistory, RejectionInfo, RejectionReason, TargetRegion};
use serde_json::{Value, json};
use std::collections::VecDeque;
use std::panic::AssertUnwindSafe;
use std::time::{Duration, Instant, SystemTime, UNIX_EPOCH};

const REASONS: [(u8, RejectionReason); 12] = [
    (0x01, RejectionReason::KeyspaceSaturation),
    (0x02, RejectionReason::Subnet64Limit),
    (0x03, RejectionReason::Subnet48Limit),
    (0x04, RejectionReason::Subnet32Limit),
    (0x05, RejectionReason::AsnLimit),
    (0x06, RejectionReason::RegionLimit),
    (0x07, RejectionReason::CloseGroupFull),
    (0x08, RejectionReason::NodeIdCollision),
    (0x09, RejectionReason::RateLimited),
    (0x0B, RejectionReason::Blocklisted),
    (0x0C, RejectionReason::GeoIpPolicy),
    (0xFF, RejectionReason::Other),
];
const VERDICTS: [(&str, FitnessVerdict); 4] =
    [("healthy", FitnessVerdict::Healthy), ("marginal", FitnessVerdict::Marginal), ("unfit", FitnessVerdict::Unfit), ("critical", FitnessVerdict::Critical)];
const HEADS: [[u8; 3]; 7] = [[0xAB, 0x10, 0x01], [0xAB, 0x1F, 0x02], [0xA0, 0x10, 0x03], [0x12, 0x34, 0x56], [0, 0, 0], [0xFF, 0xFF, 0xFF], [0xAB, 0x90, 0x07]];

fn code(r: RejectionReason) -> u64 {
    REASONS.iter().find(|(_, x)| *x == r).map(|(b, _)| u64::from(*b)).unwrap_or(1000)
}
fn reason(i: usize) -> RejectionReason {
    REASONS[i % REASONS.len()].1
}

#[derive(Clone, Copy, Debug)]
struct Cfg {
    base: u64,
    maxd: u64,
    maxatt: u32,
    window: u64,
    cbthr: u32,
    cbreset: u64,
    jit: u64,
    track: bool,
    bits: u8,
}
impl Cfg {
    fn real(&self) -> RegenerationConfig {
        RegenerationConfig {
            base_delay: Duration::from_millis(self.base),
            max_delay: Duration::from_millis(self.maxd),
            max_consecutive_attempts: self.maxatt,
            attempt_window: Duration::from_millis(self.window),
            circuit_breaker_threshold: self.cbthr,
            circuit_breaker_reset: Duration::from_millis(self.cbreset),
            jitter_factor: self.jit as f64 / 1000.0,
            track_rejected_prefixes: self.track,
            rejection_prefix_bits: self.bits,
        }
    }
    fn log(&self) -> Value {
        json!({"base": self.base * 1000, "maxd": self.maxd * 1000, "maxatt": self.maxatt, "window": self.window * 1000, "cbthr": self.cbthr,
               "cbreset": self.cbreset * 1000, "jit": self.jit, "track": self.track, "bits": self.bits, "hcap": 100})
    }
}

#[derive(Clone, Debug)]
enum Op {
    Sleep(u64),
    EvalRej { r: usize, ov: i64, tgt: bool, retry: u32 },
    EvalFit(usize),
    Attempt(usize),
    Result { ok: bool, head: usize },
    Disable,
    Enable,
    Reset,
    IsRej(usize),
    HRecord { r: usize, age: i64 },
    HRecent(i64),
    HCount(usize),
    HLoop(usize, i64),
    HCommon,
    HClear,
    HLen,
    Class(usize),
    FromByte(u8),
    Info { r: usize, ov: i64, retry: u32 },
}

fn us(d: Duration) -> u64 {
    (((d.as_nanos() + 500) / 1000).min(2_000_000_000)) as u64
}
fn proj(t: &RegenerationTrigger) -> Value {
    let mut p = t.rejected_prefixes();
    p.sort();
    json!({"en": t.is_enabled(), "fails": t.consecutive_failures().min(1_000_000), "bo": us(t.current_backoff()), "open": t.is_circuit_open(),
           "natt": t.attempt_count().min(1_000_000), "pref": p})
}
fn urg(u: RegenerationUrgency) -> &'static str {
    match u {
        RegenerationUrgency::Low => "Low",
        RegenerationUrgency::Medium => "Medium",
        RegenerationUrgency::High => "High",
        RegenerationUrgency::Critical => "Critical",
    }
}
fn dec(d: &RegenerationDecision) -> Value {
    let mut v = json!({"kind": "none", "urg": "-", "why": "-", "c": 0, "tgt": false, "rem": 0, "secs": 0, "att": 0, "max": 0});
    match d {
        RegenerationDecision::Proceed { urgency, target } => {
            v["kind"] = json!("Proceed");
            v["urg"] = json!(urg(*urgency));
            v["tgt"] = json!(target.is_some());
        }
        RegenerationDecision::Wait { remaining } => {
            v["kind"] = json!("Wait");
            v["rem"] = json!(us(*remaining));
        }
        RegenerationDecision::Recommend { reason, target } => {
            v["kind"] = json!("Recommend");
            v["why"] = json!(reason);
            v["tgt"] = json!(target.is_some());
        }
        RegenerationDecision::Blocked { reason } => {
            v["kind"] = json!("Blocked");
            match reason {
                BlockReason::MaxAttemptsReached { attempts, max } => {
                    v["why"] = json!("MaxAttemptsReached");
                    v["att"] = json!((*attempts).min(1_000_000));
                    v["max"] = json!((*max).min(1_000_000));
                }
                BlockReason::DiversityConstraint { constraint } => {
                    v["why"] = json!("DiversityConstraint");
                    v["c"] = json!(code(*constraint));
                }
                BlockReason::Blocklisted => v["why"] = json!("Blocklisted"),
                BlockReason::CircuitBreakerOpen { resets_in_secs } => {
                    v["why"] = json!("CircuitBreakerOpen");
                    v["secs"] = json!((*resets_in_secs).min(1_000_000));
                }
                BlockReason::BackoffActive { remaining } => {
                    v["why"] = json!("BackoffActive");
                    v["rem"] = json!(us(*remaining));
                }
                BlockReason::ManuallyDisabled => v["why"] = json!("ManuallyDisabled"),
            }
        }
        RegenerationDecision::NotNeeded => v["kind"] = json!("NotNeeded"),
    }
    v
}

fn wall() -> i64 {
    SystemTime::now().duration_since(UNIX_EPOCH).map(|d| d.as_secs() as i64).unwrap_or(0)
}
fn items(h: &RejectionHistory, origin: i64) -> Value {
    Value::Array(h.all().iter().map(|i| json!([code(i.reason), i.timestamp as i64 - origin])).collect())
}
fn info(r: RejectionReason, ov: i64, retry: u32) -> RejectionInfo {
    let mut i = RejectionInfo::new(r);
    if ov >= 0 {
        i = i.with_regeneration_recommended(ov == 1);
    }
    if retry > 0 {
        i = i.with_retry_after(retry);
    }
    i
}
fn node(head: usize, rng: &mut impl Rng) -> NodeId {
    let mut b = [0u8; 32];
    rng.fill(&mut b);
    b[..3].copy_from_slice(&HEADS[head % HEADS.len()]);
    NodeId(b)
}
fn dur(dms: i64) -> Duration {
    if dms < 0 { Duration::MAX } else { Duration::from_millis(dms as u64) }
}

fn script() -> Vec<Op> {
    let mut v = vec![
        Op::Class(5),                                        // RegionLimit: diversity constraint, not blocking
        Op::EvalRej { r: 5, ov: -1, tgt: false, retry: 0 },
        Op::Class(8),
        Op::Info { r: 8, ov: -1, retry: 60 },
        Op::EvalRej { r: 8, ov: -1, tgt: false, retry: 60 },  // RateLimited with retry-after
        Op::EvalRej { r: 0, ov: 0, tgt: true, retry: 0 },     // KeyspaceSaturation, regeneration NOT recommended
        Op::Info { r: 0, ov: 0, retry: 0 },
        Op::Result { ok: false, head: 0 },
        Op::Result { ok: false, head: 3 },                    // second failure in a row: circuit opens
        Op::EvalRej { r: 0, ov: -1, tgt: false, retry: 0 },
        Op::Sleep(36),                                        // longer than circuit_breaker_reset
        Op::EvalRej { r: 0, ov: -1, tgt: false, retry: 0 },   // proceeds; is_circuit_open() still true
        Op::EvalFit(3),
        Op::Result { ok: true, head: 1 },
    ];
    for k in 0..9 {
        v.push(Op::Attempt(k));                               // backoff with jitter, beyond max_delay from the third failure on
        v.push(Op::Result { ok: false, head: k });
    }
    v.extend([Op::EvalRej { r: 7, ov: -1, tgt: false, retry: 0 }, Op::Sleep(50), Op::EvalRej { r: 7, ov: -1, tgt: false, retry: 0 }]);
    v.extend([Op::HRecord { r: 0, age: 0 }, Op::HLen, Op::HRecord { r: 6, age: 5 }, Op::HCommon, Op::HRecent(-1)]);   // on RejectionHistory::default()
    v
}

pub fn drive(a: &Args) -> i32 {
    let out = a.str("out", "/dev/stdout");
    let segments = a.num("segments", 48);
    let ops = a.num("ops", 60);
    common::quiet_panics();
    let mut t = Trace::create(&out);
    let mut rng = common::rng(41);
    let origin = wall() - 1_000_000;
    let mut panics = 0u64;
    let ages: [i64; 12] = [0, 0, 1, 2, 59, 60, 61, 3599, 3600, 3601, 86_400, -100];
    let windows: [i64; 11] = [0, 999, 1000, 1500, 2000, 59_000, 60_000, 61_000, 3_600_000, 3_601_000, -1];
    for seg in 0..segments {
        let scripted = seg == 0;
        let cfg = if scripted {
            Cfg { base: 10, maxd: 40, maxatt: 12, window: 2000, cbthr: 2, cbreset: 30, jit: 200, track: true, bits: 8 }
        } else {
            Cfg {
                base: [8, 10, 15][rng.gen_range(0..3)],
                maxd: [30, 40, 80, 80, 5][rng.gen_range(0..5)],
                maxatt: [2, 3, 4, 6][rng.gen_range(0..4)],
                window: [40, 80, 200][rng.gen_range(0..3)],
                cbthr: [1, 2, 3, 5][rng.gen_range(0..4)],
                cbreset: [25, 50, 50, 3500][rng.gen_range(0..4)],
                jit: [0, 0, 200, 500, 1000][rng.gen_range(0..5)],
                track: rng.gen_range(0..5) > 0,
                bits: [0, 3, 4, 8, 8, 12, 16][rng.gen_range(0..7)],
            }
        };
        let (hkind, hcap): (&str, usize) = if scripted {
            ("default", 0)
        } else {
            match rng.gen_range(0..6) {
                0 | 1 => ("new", 0),
                2 => ("default", 0),
                _ => ("cap", [0, 1, 3, 5, 2000][rng.gen_range(0..5)]),
            }
        };
        let start = Instant::now();
        let trig = RegenerationTrigger::new(cfg.real());
        let mut hist = match hkind {
            "new" => RejectionHistory::new(),
            "default" => RejectionHistory::default(),
            _ => RejectionHistory::with_capacity(hcap),
        };
        t.ev(json!({"ev":"Reset","seg":seg,"cfg":cfg.log(),"hkind":hkind,"hcap":hcap,"state":proj(&trig),"hstate":items(&hist, origin)}));
        let mut queue: VecDeque<Op> = if scripted { script().into() } else { VecDeque::new() };
        let count = if scripted { queue.len() as u64 } else { ops };
        for _ in 0..count {
            let op = match queue.pop_front() {
                Some(o) => o,
                None => {
                    let roll = rng.gen_range(0..100);
                    if roll < 16 {
                        let pool = [1, cfg.base / 2, cfg.base + 1, 2 * cfg.base + 2, (cfg.cbreset / 2).min(20), (cfg.cbreset + 2).min(55), (cfg.window / 2).min(45), 3, 6];
                        Op::Sleep(pool[rng.gen_range(0..pool.len())])
                    } else if roll < 38 {
                        let r = if rng.gen_range(0..2) == 0 { [0usize, 6, 7, 11][rng.gen_range(0..4)] } else { rng.gen_range(0..REASONS.len()) };
                        Op::EvalRej { r, ov: [-1, -1, 0, 1][rng.gen_range(0..4)], tgt: rng.gen_range(0..3) == 0, retry: [0, 0, 30, 60][rng.gen_range(0..4)] }
                    } else if roll < 48 {
                        Op::EvalFit(rng.gen_range(0..4))
                    } else if roll < 60 {
                        Op::Attempt(rng.gen_range(0..6))
                    } else if roll < 72 {
                        Op::Result { ok: rng.gen_range(0..100) < 30, head: rng.gen_range(0..HEADS.len()) }
                    } else if roll < 73 {
                        Op::Disable
                    } else if roll < 77 {
                        Op::Enable
                    } else if roll < 79 {
                        Op::Reset
                    } else if roll < 83 {
                        Op::IsRej(rng.gen_range(0..HEADS.len()))
                    } else if roll < 89 {
                        Op::HRecord { r: rng.gen_range(0..REASONS.len()), age: ages[rng.gen_range(0..ages.len())] }
                    } else if roll < 91 {
                        Op::HRecent(windows[rng.gen_range(0..windows.len())])
                    } else if roll < 92 {
                        Op::HCount(rng.gen_range(0..REASONS.len()))
                    } else if roll < 94 {
                        Op::HLoop(rng.gen_range(0..5), windows[rng.gen_range(0..windows.len())])
                    } else if roll < 95 {
                        Op::HCommon
                    } else if roll < 96 {
                        if rng.gen_range(0..3) == 0 { Op::HClear } else { Op::HLen }
                    } else if roll < 97 {
                        Op::Class(rng.gen_range(0..REASONS.len()))
                    } else if roll < 98 {
                        Op::FromByte(if rng.gen_range(0..2) == 0 { rng.gen_range(0..16) } else { rng.gen_range(0..=255u8) })
                    } else {
                        Op::Info { r: rng.gen_range(0..REASONS.len()), ov: [-1, 0, 1][rng.gen_range(0..3)], retry: [0, 60][rng.gen_range(0..2)] }
                    }
                }
            };
            if let Op::Sleep(ms) = op {
                std::thread::sleep(Duration::from_millis(ms.max(1)));
                continue;
            }
            let pre = proj(&trig);
            let hpre = items(&hist, origin);
            let n0 = wall() - origin;
            let t0 = start.elapsed().as_micros() as u64;
            let mut follow: Vec<Op> = Vec::new();
            let res = common::catch(AssertUnwindSafe(|| -> Value {
                match &op {
                    Op::Sleep(_) => json!({}),
                    Op::EvalRej { r, ov, tgt, retry } => {
                        let mut i = info(reason(*r), *ov, *retry);
                        if *tgt {
                            i = i.with_suggested_target(TargetRegion::new(KeyspaceRegion::new(vec![0x40], 2, 0.1), 0.9, "sparse"));
                        }
                        let d = trig.evaluate_rejection(&i);
                        if !scripted && d.should_proceed() && rng.gen_range(0..10) < 7 {
                            follow.push(Op::Attempt(6 + *r));
                            follow.push(Op::Result { ok: rng.gen_range(0..100) < 25, head: rng.gen_range(0..HEADS.len()) });
                        }
                        json!({"op":"evalrej","r":code(reason(*r)),"ov":*ov,"rec":i.regeneration_recommended,"tgt":*tgt,"retry":*retry,"d":dec(&d),"ok":d.should_proceed()})
                    }
                    Op::EvalFit(v) => {
                        let mut m = FitnessMetrics::default();
                        m.verdict = VERDICTS[*v].1;
                        let d = trig.evaluate_fitness(&m);
                        if !scripted && d.should_proceed() && rng.gen_range(0..10) < 5 {
                            follow.push(Op::Attempt(*v));
                            follow.push(Op::Result { ok: rng.gen_range(0..100) < 25, head: rng.gen_range(0..HEADS.len()) });
                        }
                        json!({"op":"evalfit","v":VERDICTS[*v].0,"d":dec(&d),"ok":d.should_proceed()})
                    }
                    Op::Attempt(k) => {
                        let why = match k % 4 {
                            0 => RegenerationReason::Manual,
                            1 => RegenerationReason::Scheduled,
                            2 => RegenerationReason::Rejection(reason(*k)),
                            _ => RegenerationReason::FitnessCheck(VERDICTS[*k % 4].1),
                        };
                        trig.record_attempt(node(*k, &mut rng), why);
                        json!({"op":"attempt","ok":true})
                    }
                    Op::Result { ok, head } => {
                        trig.record_result(node(*head, &mut rng), *ok);
                        json!({"op":"result","succeeded":*ok,"id":HEADS[*head % HEADS.len()],"ok":true})
                    }
                    Op::Disable => {
                        trig.disable();
                        json!({"op":"disable","ok":true})
                    }
                    Op::Enable => {
                        trig.enable();
                        json!({"op":"enable","ok":true})
                    }
                    Op::Reset => {
                        trig.reset();
                        json!({"op":"reset","ok":true})
                    }
                    Op::IsRej(head) => json!({"op":"isrej","id":HEADS[*head % HEADS.len()],"ok":trig.is_prefix_rejected(&node(*head, &mut rng))}),
                    Op::HRecord { r, age } => {
                        let mut i = RejectionInfo::new(reason(*r));
                        let ts = wall() - *age;
                        i.timestamp = ts as u64;
                        hist.record(i);
                        json!({"op":"hrecord","r":code(reason(*r)),"ts":ts - origin,"ok":true})
                    }
                    Op::HRecent(dms) => {
                        let got: Vec<Value> = hist.recent(dur(*dms)).iter().map(|i| json!([code(i.reason), i.timestamp as i64 - origin])).collect();
                        json!({"op":"hrecent","dms":*dms,"res":got,"ok":true})
                    }
                    Op::HCount(r) => json!({"op":"hcount","r":code(reason(*r)),"res":hist.count_by_reason(reason(*r)),"ok":true}),
                    Op::HLoop(thr, dms) => json!({"op":"hloop","thr":*thr,"dms":*dms,"ok":hist.is_in_rejection_loop(*thr, dur(*dms))}),
                    Op::HCommon => json!({"op":"hcommon","res":hist.most_common_reason().map(|r| code(r) as i64).unwrap_or(-1),"ok":true}),
                    Op::HClear => {
                        hist.clear();
                        json!({"op":"hclear","ok":true})
                    }
                    Op::HLen => json!({"op":"hlen","res":hist.len(),"ok":hist.is_empty()}),
                    Op::Class(r) => {
                        let x = reason(*r);
                        json!({"op":"class","r":code(x),"help":x.regeneration_may_help(),"div":x.is_diversity_constraint(),"blk":x.is_blocking(),"byte":x.to_byte(),"ok":true})
                    }
                    Op::FromByte(b) => json!({"op":"frombyte","b":*b,"res":code(RejectionReason::from_byte(*b)),"ok":true}),
                    Op::Info { r, ov, retry } => {
                        let i = info(reason(*r), *ov, *retry);
                        json!({"op":"info","r":code(reason(*r)),"ov":*ov,"retry":*retry,"rec":i.regeneration_recommended,"should":i.should_regenerate(),
                               "blk":i.is_blocking(),"delay":i.retry_delay().as_secs().min(1_000_000),"ok":true})
                    }
                }
            }));
            let t1 = (start.elapsed().as_nanos() / 1000 + 1) as u64;
            let n1 = wall() - origin;
            match res {
                Ok(mut ev) => {
                    ev["ev"] = json!("Step");
                    ev["t0"] = json!(t0);
                    ev["t1"] = json!(t1);
                    ev["n0"] = json!(n0);
                    ev["n1"] = json!(n1);
                    ev["pre"] = pre;
                    ev["post"] = proj(&trig);
                    ev["hpre"] = hpre;
                    ev["hpost"] = items(&hist, origin);
                    t.ev(ev);
                }
                Err(msg) => {
                    panics += 1;
                    t.ev(json!({"ev":"Panic","seg":seg,"op":format!("{op:?}"),"msg":msg}));
                    break;
                }
            }
            for f in follow.into_iter().rev() {
                queue.push_front(f);
            }
        }
    }
    let n = t.finish();
    eprintln!("regen drive: {n} events, {panics} panics");
    0
}
