//! C02 driver: random join/add/fail/evict histories on the real DhtCoreEngine; after every
//! operation closest-node answers (find_nodes, FindNode and FindValue requests) are logged.
//! The oracle is spec/Trace_Kademlia.tla (Closest over the model's member set).
use crate::common::{self, Args, Embed, Trace};
use rand::Rng;
use saorsa_core::dht::core_engine::{DhtCoreEngine, DhtKey, DhtRequestWrapper, NodeCapacity, NodeId, NodeInfo};
use saorsa_core::dht::network_integration::{DhtMessage, DhtResponse};
use saorsa_core::dht::routing_maintenance::EvictionReason;
use saorsa_core::dht::routing_maintenance::close_group_validator::CloseGroupValidationResult;
use serde_json::json;
use std::time::SystemTime;

fn info(e: &Embed, id: u64, addr: &str) -> NodeInfo {
    NodeInfo {
        id: NodeId::from_bytes(e.embed(id)),
        address: addr.to_string(),
        last_seen: SystemTime::now(),
        capacity: NodeCapacity::default(),
    }
}

fn decode(e: &Embed, nodes: &[NodeInfo]) -> Vec<i64> {
    nodes.iter().map(|n| e.decode(n.id.as_bytes())).collect()
}

async fn finds(t: &mut Trace, eng: &DhtCoreEngine, e: &Embed, bits: usize, rng: &mut impl Rng, how_many: usize) {
    let space = 1u64 << bits;
    for _ in 0..how_many {
        let key = rng.gen_range(0..space);
        let k = DhtKey::from_bytes(e.embed(key));
        let n: usize = match rng.gen_range(0..10) {
            0 => 0,
            1 => 1,
            2 => 2,
            3 => 3,
            4 => 5,
            5 => 8,
            6 => 20,
            7 => 64,
            _ => rng.gen_range(0..=64),
        };
        match rng.gen_range(0..4) {
            0 | 1 => match eng.find_nodes(&k, n).await {
                Ok(ans) => t.ev(json!({"ev":"Find","via":"find_nodes","key":key,"n":n,"ans":decode(e,&ans)})),
                Err(err) => t.ev(json!({"ev":"FindErr","via":"find_nodes","key":key,"n":n,"err":err.to_string()})),
            },
            2 => {
                let count = if rng.gen_bool(0.3) { rng.gen_range(0..200usize) } else { n };
                let req = DhtRequestWrapper { id: "r".into(), message: DhtMessage::FindNode { target: k, count } };
                match eng.handle_request(req).await.response {
                    DhtResponse::FindNodeReply { nodes, .. } => {
                        t.ev(json!({"ev":"Find","via":"FindNode","key":key,"n":count.min(20),"ans":decode(e,&nodes)}))
                    }
                    other => t.ev(json!({"ev":"FindErr","via":"FindNode","key":key,"n":count,"err":format!("{other:?}")})),
                }
            }
            _ => {
                let req = DhtRequestWrapper { id: "r".into(), message: DhtMessage::FindValue { key: k } };
                match eng.handle_request(req).await.response {
                    DhtResponse::FindValueReply { value: None, nodes } => {
                        t.ev(json!({"ev":"Find","via":"FindValue","key":key,"n":8,"ans":decode(e,&nodes)}))
                    }
                    other => t.ev(json!({"ev":"FindErr","via":"FindValue","key":key,"n":8,"err":format!("{other:?}")})),
                }
            }
        }
    }
}

pub fn drive(a: &Args) -> i32 {
    let out = a.str("out", "/dev/stdout");
    let segments = a.num("segments", 20);
    let ops = a.num("ops", 40);
    let mut t = Trace::create(&out);
    let mut rng = common::rng(2);
    let rt = common::rt();
    rt.block_on(async {
        for seg in 0..segments {
            // id width: small widths give dense tables (full buckets, collisions), larger ones sparse
            let bits: usize = [3, 4, 4, 5, 6, 8, 10][(seg % 7) as usize];
            let e = Embed::new(bits, &mut rng, seg % 3 == 2);
            let space = 1u64 << bits;
            let selfid = rng.gen_range(0..space);
            let mut eng = match DhtCoreEngine::new(NodeId::from_bytes(e.embed(selfid))) {
                Ok(x) => x,
                Err(err) => {
                    eprintln!("engine: {err}");
                    std::process::exit(2)
                }
            };
            t.ev(json!({"ev":"Reset","self":selfid,"bits":bits,"cap":8,"pos":e.pos}));
            let mut broken = false;
            for _ in 0..ops {
                if broken {
                    break;
                }
                let x = if rng.gen_bool(0.05) { selfid } else { rng.gen_range(0..space) };
                match rng.gen_range(0..10) {
                    0..=3 => {
                        let r = eng.join_network(vec![info(&e, x, "verif-join")]).await;
                        t.ev(json!({"ev":"Add","via":"join_network","x":x,"ok":r.is_ok()}));
                    }
                    4 => {
                        // several at once, possibly with repeats
                        let k = rng.gen_range(2..6);
                        let xs: Vec<u64> = (0..k).map(|_| rng.gen_range(0..space)).collect();
                        let r = eng.join_network(xs.iter().map(|&y| info(&e, y, "verif-join")).collect()).await;
                        if r.is_ok() {
                            for y in xs {
                                t.ev(json!({"ev":"Add","via":"join_network","x":y,"ok":true}));
                            }
                        } else {
                            // an unknown prefix was added: the model cannot follow, start a new segment
                            broken = true;
                        }
                    }
                    5 | 6 => {
                        // security-checked path; the address does not parse so the IP gates (C13) stay out
                        let id = NodeId::from_bytes(e.embed(x));
                        {
                            let v = eng.close_group_validator();
                            let g = v.read().await;
                            let mut res = CloseGroupValidationResult::new(id.clone());
                            res.is_valid = true;
                            g.cache_result(res);
                        }
                        let r = eng.add_node(info(&e, x, "verif-add")).await;
                        t.ev(json!({"ev":"Add","via":"add_node","x":x,"ok":r.is_ok()}));
                    }
                    7 => {
                        let r = eng.handle_node_failure(NodeId::from_bytes(e.embed(x))).await;
                        t.ev(json!({"ev":"Rm","via":"handle_node_failure","x":x,"ok":r.is_ok()}));
                    }
                    8 => {
                        let r = eng.evict_node(&NodeId::from_bytes(e.embed(x)), EvictionReason::Stale).await;
                        t.ev(json!({"ev":"Rm","via":"evict_node","x":x,"ok":r.is_ok()}));
                    }
                    _ => {
                        // remove a present member (uniform x rarely hits in sparse spaces)
                        if let Ok(ans) = eng.find_nodes(&DhtKey::from_bytes(e.embed(x)), 1).await {
                            if let Some(n) = ans.first() {
                                let y = e.decode(n.id.as_bytes());
                                let r = eng.evict_node(&n.id, EvictionReason::ConsecutiveFailures(3)).await;
                                if y >= 0 {
                                    t.ev(json!({"ev":"Rm","via":"evict_node","x":y,"ok":r.is_ok()}));
                                } else {
                                    broken = true;
                                }
                            }
                        }
                    }
                }
                if broken {
                    break;
                }
                finds(&mut t, &eng, &e, bits, &mut rng, 3).await;
            }
        }
    });
    let n = t.finish();
    eprintln!("c02 drive: {n} events");
    0
}

/// Spec -> impl: replay TLC-generated behaviours of Replay_Kademlia.tla on the real engine and compare
/// the closest-node answers for every key after every step with the model's answers.
pub fn replay(a: &Args) -> i32 {
    let input = a.str("in", "/dev/stdin");
    let text = match std::fs::read_to_string(&input) {
        Ok(t) => t,
        Err(e) => {
            eprintln!("cannot read {input}: {e}");
            return 2;
        }
    };
    let mut rng = common::rng(22);
    let rt = common::rt();
    let mut behaviours = 0u64;
    let mut steps = 0u64;
    let mut compared = 0u64;
    let mut mismatches: Vec<serde_json::Value> = Vec::new();
    rt.block_on(async {
        for line in text.lines() {
            let Ok(b) = serde_json::from_str::<serde_json::Value>(line) else { continue };
            let bits = b["bits"].as_u64().unwrap_or(4) as usize;
            let selfid = b["self"].as_u64().unwrap_or(0);
            let n = b["n"].as_u64().unwrap_or(3) as usize;
            let e = Embed::new(bits, &mut rng, behaviours % 2 == 1);
            let Ok(mut eng) = DhtCoreEngine::new(NodeId::from_bytes(e.embed(selfid))) else { return };
            behaviours += 1;
            for (si, st) in b["steps"].as_array().cloned().unwrap_or_default().iter().enumerate() {
                steps += 1;
                let x = st["x"].as_u64().unwrap_or(0);
                match st["op"].as_str().unwrap_or("") {
                    "add" => {
                        let _ = eng.join_network(vec![info(&e, x, "verif-replay")]).await;
                    }
                    _ => {
                        if si % 2 == 0 {
                            let _ = eng.handle_node_failure(NodeId::from_bytes(e.embed(x))).await;
                        } else {
                            let _ = eng.evict_node(&NodeId::from_bytes(e.embed(x)), EvictionReason::Stale).await;
                        }
                    }
                }
                if let Some(ans) = st["answers"].as_object() {
                    for (k, exp) in ans {
                        let key: u64 = k.parse().unwrap_or(0);
                        let got = eng.find_nodes(&DhtKey::from_bytes(e.embed(key)), n).await.map(|v| decode(&e, &v)).unwrap_or_default();
                        let expv: Vec<i64> = exp.as_array().map(|v| v.iter().filter_map(|z| z.as_i64()).collect()).unwrap_or_default();
                        compared += 1;
                        if got != expv && mismatches.len() < 20 {
                            mismatches.push(json!({"behaviour":behaviours,"step":si + 1,"op":st["op"],"x":x,"key":key,"expected":expv,"got":got,"self":selfid,"bits":bits}));
                        }
                    }
                }
            }
        }
    });
    println!("{}", json!({"behaviours":behaviours,"steps":steps,"compared":compared,"mismatches":mismatches}));
    0
}
