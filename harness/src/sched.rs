//! MaintenanceScheduler driver (specification growth): random start / stop / get_due_tasks / mark_* /
//! set_interval sequences on the real scheduler in real time (std Instant) with millisecond intervals.
//! Every event carries the clock band [t0, t1] (microseconds since segment start) around the call.
//! Oracle: spec/Trace_Scheduler.tla (a due-answer must be right for some instant of the band).
use crate::common::{self, Args, Trace};
use rand::Rng;
use saorsa_core::dht::routing_maintenance::{MaintenanceConfig, MaintenanceScheduler, MaintenanceTask};
use serde_json::json;
use std::time::{Duration, Instant};

fn idx(t: MaintenanceTask) -> usize {
    MaintenanceTask::all().iter().position(|x| *x == t).map(|i| i + 1).unwrap_or(0)
}

pub fn drive(a: &Args) -> i32 {
    let out = a.str("out", "/dev/stdout");
    let segments = a.num("segments", 10);
    let ops = a.num("ops", 60);
    let mut t = Trace::create(&out);
    let mut rng = common::rng(23);
    let all = MaintenanceTask::all();
    for _ in 0..segments {
        let start = Instant::now();
        let us = |i: Instant| i.duration_since(start).as_micros() as u64;
        let t0 = Instant::now();
        let mut s = MaintenanceScheduler::new(MaintenanceConfig::default());
        let t1 = Instant::now();
        t.ev(json!({"ev":"Reset","ntasks":all.len(),"t0":us(t0),"t1":us(t1)}));
        // millisecond intervals so that tasks become due during the run
        for task in &all {
            let iv = rng.gen_range(2..40u64);
            s.set_interval(*task, Duration::from_millis(iv));
            t.ev(json!({"ev":"SetInterval","task":idx(*task),"interval":iv * 1000}));
        }
        for _ in 0..ops {
            let task = all[rng.gen_range(0..all.len())];
            match rng.gen_range(0..12) {
                0 => {
                    s.start();
                    t.ev(json!({"ev":"Start"}));
                }
                1 => {
                    if rng.gen_bool(0.3) {
                        s.stop();
                        t.ev(json!({"ev":"Stop"}));
                    }
                }
                2 | 3 | 4 => {
                    let t0 = Instant::now();
                    let due = s.get_due_tasks();
                    let t1 = Instant::now();
                    let mut d: Vec<usize> = due.iter().map(|x| idx(*x)).collect();
                    d.sort();
                    t.ev(json!({"ev":"Due","due":d,"active":s.is_active(),"t0":us(t0),"t1":us(t1)}));
                }
                5 | 6 => {
                    s.mark_started(task);
                    t.ev(json!({"ev":"Started","task":idx(task)}));
                }
                7 | 8 => {
                    let t0 = Instant::now();
                    s.mark_completed(task);
                    let t1 = Instant::now();
                    t.ev(json!({"ev":"Completed","task":idx(task),"t0":us(t0),"t1":us(t1)}));
                }
                9 => {
                    let t0 = Instant::now();
                    s.mark_failed(task);
                    let t1 = Instant::now();
                    t.ev(json!({"ev":"Failed","task":idx(task),"t0":us(t0),"t1":us(t1)}));
                }
                10 => {
                    let iv = rng.gen_range(1..40u64);
                    s.set_interval(task, Duration::from_millis(iv));
                    t.ev(json!({"ev":"SetInterval","task":idx(task),"interval":iv * 1000}));
                }
                _ => std::thread::sleep(Duration::from_millis(rng.gen_range(1..15))),
            }
            // the scheduler's own counters, as it reports them
            let stats: Vec<_> = s.get_stats().iter().map(|x| json!([idx(x.task), x.run_count, x.failure_count, x.is_running])).collect();
            t.ev(json!({"ev":"Stats","stats":stats}));
        }
    }
    let n = t.finish();
    eprintln!("sched drive: {n} events");
    0
}
