//! ResourceManager driver (specification growth, module Resource): random sequences of acquire (foreground under a
//! timeout / in a task of its own) / drop guard / abort waiter / check_rate_limit / record_bandwidth / health_check /
//! get_metrics / start / shutdown / tokio-time advance / real sleep on a real `saorsa_core::production::ResourceManager`.
//! Two clocks: the runtime is paused (tokio time = the background tasks' intervals, the shutdown timeout, the acquire
//! timeout; logged exactly, milliseconds), the token buckets and the bandwidth window read std::time::Instant (every step
//! carries the band [t0, t1] of real microseconds in which it ran). Every step logs the projected state before and after
//! (live guards, queued acquires, the metrics snapshot, alive runtime tasks that are not the driver's own, tokio now) and
//! the result (0 = false / Err, 1 = true / Ok, 2 = pending). Oracle: spec/Trace_Resource.tla. No expected values here.
use crate::common::{self, Args, Trace};
use crate::net;
use rand::Rng;
use saorsa_core::production::{ConnectionGuard, ProductionConfig, RateLimitConfig, ResourceManager};
use serde_json::{Value, json};
use std::panic::AssertUnwindSafe;
use std::time::{Duration, Instant};
use tokio::task::JoinHandle;

type Waiter = JoinHandle<saorsa_core::Result<ConnectionGuard<'static>>>;

struct World {
    m: &'static ResourceManager,
    guards: Vec<(u64, ConnectionGuard<'static>)>,
    waiters: Vec<(u64, Waiter)>,
    tokio0: tokio::time::Instant,
}

async fn settle() {
    for _ in 0..60 {
        tokio::task::yield_now().await;
    }
}

impl World {
    /// Move the acquires that have finished out of the waiter list (granted ones become guards).
    async fn harvest(&mut self) {
        let mut i = 0;
        while i < self.waiters.len() {
            if self.waiters[i].1.is_finished() {
                let (id, h) = self.waiters.remove(i);
                if let Ok(Ok(g)) = h.await {
                    self.guards.push((id, g));
                }
            } else {
                i += 1;
            }
        }
    }
    async fn project(&mut self) -> Value {
        self.harvest().await;
        let mut g: Vec<u64> = self.guards.iter().map(|x| x.0).collect();
        g.sort();
        let w: Vec<u64> = self.waiters.iter().map(|x| x.0).collect();
        let met = self.m.get_metrics().await;
        let alive = tokio::runtime::Handle::current().metrics().num_alive_tasks() as i64 - self.waiters.len() as i64;
        json!({"guards": g, "waiters": w, "mconn": met.active_connections, "mbw": met.bandwidth_usage.min(2_000_000_000),
               "mem": met.memory_used.min(2_000_000_000), "alive": alive, "now": self.tokio0.elapsed().as_millis() as u64})
    }
}

const OPS: [&str; 4] = ["dht", "mcp", "message", "other"];

pub fn drive(a: &Args) -> i32 {
    let out = a.str("out", "/dev/stdout");
    let segments = a.num("segments", 40);
    let ops = a.num("ops", 60);
    let long_every = a.num("long_every", 8);
    let mut t = Trace::create(&out);
    let mut rng = common::rng(81);
    common::quiet_panics();
    for seg in 0..segments {
        let rt = net::paused_rt();
        let mut events: Vec<Value> = Vec::new();
        let r = std::panic::catch_unwind(AssertUnwindSafe(|| {
            rt.block_on(async {
                let max = rng.gen_range(1..=3usize);
                let lim = |r: &mut rand_chacha::ChaCha8Rng, hi: u32| if r.gen_bool(0.1) { 0 } else { r.gen_range(1..=hi) };
                let (dht, mcp, message) = (lim(&mut rng, 4), lim(&mut rng, 3), lim(&mut rng, 5));
                let burst = [0u32, 20, 50, 50, 100, 100, 200][rng.gen_range(0..7)];
                let iv_m = [20u64, 50][rng.gen_range(0..2)];
                let iv_h = [30u64, 70][rng.gen_range(0..2)];
                let track = rng.gen_bool(0.8);
                let cleanup = rng.gen_bool(0.7);
                let shut_to = [100u64, 250][rng.gen_range(0..2)];
                let acq_to = 5u64;
                let max_mem = [0u64, 1000][rng.gen_range(0..2)];
                let cfg = ProductionConfig {
                    max_connections: max,
                    max_memory_bytes: max_mem,
                    max_bandwidth_bps: 1000,
                    connection_timeout: Duration::from_millis(100),
                    keep_alive_interval: Duration::from_millis(50),
                    health_check_interval: Duration::from_millis(iv_h),
                    metrics_interval: Duration::from_millis(iv_m),
                    enable_performance_tracking: track,
                    enable_auto_cleanup: cleanup,
                    shutdown_timeout: Duration::from_millis(shut_to),
                    rate_limits: RateLimitConfig {
                        dht_ops_per_sec: dht,
                        mcp_calls_per_sec: mcp,
                        messages_per_sec: message,
                        burst_capacity: burst,
                        window_duration: Duration::from_millis(100),
                    },
                };
                let base = Instant::now();
                let lo = |i: Instant| i.duration_since(base).as_micros() as u64;
                let hi = |i: Instant| i.duration_since(base).as_micros() as u64 + 1;
                let tokio0 = tokio::time::Instant::now();
                let b0 = Instant::now();
                let m: &'static ResourceManager = Box::leak(Box::new(ResourceManager::new(cfg)));
                let b1 = Instant::now();
                events.push(json!({"ev":"Reset","t0":lo(b0),"t1":hi(b1),
                    "cfg":{"max":max,"dht":dht,"mcp":mcp,"message":message,"burst":burst,"ivM":iv_m,"ivH":iv_h,"ivC":300_000,
                           "track":track,"cleanup":cleanup,"shutTo":shut_to,"acqTo":acq_to,"maxMem":max_mem}}));
                let mut w = World { m, guards: Vec::new(), waiters: Vec::new(), tokio0 };
                let mut next_id = 1u64;
                let mut unsettled = 0;
                let mut long_done = false;
                let mut last_pair: (u64, &str) = (0, "");
                let mut force_next: Option<u32> = None;
                let npeers = rng.gen_range(1..=3u64);
                for step in 0..ops {
                    let pre = w.project().await;
                    let (mut k, mut p, mut o, mut n, mut d) = (0u64, 0u64, "", 0u64, 0u64);
                    let mut flag = unsettled < 3 && rng.gen_bool(0.3);   // true: no yield after the call
                    let mut choice = if step < 3 && rng.gen_bool(0.4) { 22 } else { rng.gen_range(0..30u32) };
                    if (5..=7).contains(&choice) && w.guards.is_empty() {
                        choice = 0;
                    }
                    if choice == 8 && w.waiters.is_empty() {
                        choice = 3;
                    }
                    if choice == 23 && step * 2 < ops && rng.gen_bool(0.8) {
                        choice = 9;
                    }
                    if let Some(c) = force_next.take() {
                        choice = c;
                        flag = false;
                    }
                    let t0 = Instant::now();
                    let (op, ok): (&str, i64) = match choice {
                        0..=2 => {
                            flag = false;
                            k = next_id;
                            match tokio::time::timeout(Duration::from_millis(acq_to), m.acquire_connection()).await {
                                Ok(Ok(g)) => {
                                    next_id += 1;
                                    w.guards.push((k, g));
                                    ("acquire", 1)
                                }
                                Ok(Err(_)) => ("acquire", 0),
                                Err(_) => ("acquire", 2),
                            }
                        }
                        3 | 4 => {
                            flag = false;
                            k = next_id;
                            next_id += 1;
                            w.waiters.push((k, tokio::spawn(async move { m.acquire_connection().await })));
                            settle().await;
                            w.harvest().await;
                            let r = if w.guards.iter().any(|x| x.0 == k) {
                                1
                            } else if w.waiters.iter().any(|x| x.0 == k) {
                                2
                            } else {
                                0
                            };
                            ("acquirebg", r)
                        }
                        5..=7 if !w.guards.is_empty() => {
                            flag = false;
                            let i = rng.gen_range(0..w.guards.len());
                            let (id, g) = w.guards.remove(i);
                            k = id;
                            drop(g);
                            ("drop", 1)
                        }
                        8 if !w.waiters.is_empty() => {
                            flag = false;
                            let i = rng.gen_range(0..w.waiters.len());
                            let (id, h) = w.waiters.remove(i);
                            k = id;
                            h.abort();
                            settle().await;
                            let _ = h.await;
                            ("abort", 1)
                        }
                        9..=16 => {
                            // runs of calls on one pair are what exhausts a bucket
                            if last_pair.0 > 0 && rng.gen_bool(0.5) {
                                (p, o) = last_pair;
                            } else {
                                p = rng.gen_range(1..=npeers);
                                o = OPS[if rng.gen_bool(0.1) { 3 } else { rng.gen_range(0..3) }];
                            }
                            last_pair = (p, o);
                            match m.check_rate_limit(&format!("peer-{p}"), o).await {
                                Ok(true) => ("check", 1),
                                Ok(false) => ("check", 0),
                                Err(_) => ("check", 3),
                            }
                        }
                        17 | 18 => {
                            n = rng.gen_range(1..=40);
                            let sent = rng.gen_range(0..=n);
                            m.record_bandwidth(sent, n - sent);
                            ("record", 1)
                        }
                        19..=21 => {
                            flag = false;
                            d = [1u64, 10, 20, 20, 50, 50, 100, 300_000][rng.gen_range(0..8)];
                            tokio::time::sleep(Duration::from_millis(d)).await;
                            ("advance", 1)
                        }
                        22 => {
                            // sometimes: shutdown straight after a start, before the runtime has polled the new tasks
                            if rng.gen_bool(0.25) {
                                flag = true;
                                force_next = Some(23);
                            }
                            ("start", if m.start().await.is_ok() { 1 } else { 0 })
                        }
                        23 => {
                            let r = m.shutdown().await.is_ok();
                            if !r {
                                flag = false;
                            }
                            ("shutdown", if r { 1 } else { 0 })
                        }
                        24 => ("health", if m.health_check().await.is_ok() { 1 } else { 0 }),
                        25 => {
                            let _ = m.get_metrics().await;
                            ("metrics", 1)
                        }
                        26 if seg % long_every == 3 && !long_done && step > 10 => {
                            long_done = true;
                            flag = true;
                            std::thread::sleep(Duration::from_millis(1020));
                            ("rsleep", 1)
                        }
                        _ => {
                            flag = true;
                            std::thread::sleep(Duration::from_micros(rng.gen_range(200..25_000)));
                            ("rsleep", 1)
                        }
                    };
                    if flag {
                        unsettled += 1;
                    } else {
                        unsettled = 0;
                        settle().await;
                    }
                    let t1 = Instant::now();
                    let post = w.project().await;
                    events.push(json!({"ev":"Step","op":op,"k":k,"p":p,"o":o,"n":n,"d":d,"settle":!flag,"t0":lo(t0),"t1":hi(t1),
                                       "ok":ok,"pre":pre,"post":post}));
                }
                for (_, h) in w.waiters.drain(..) {
                    h.abort();
                }
                w.guards.clear();
            })
        }));
        if let Err(e) = r {
            let msg = e.downcast_ref::<&str>().map(|s| s.to_string()).or_else(|| e.downcast_ref::<String>().cloned()).unwrap_or_else(|| "panic".into());
            events.push(json!({"ev":"Panic","msg":msg}));
        }
        drop(rt);
        for e in events {
            t.ev(e);
        }
    }
    let n = t.finish();
    eprintln!("resource drive: {n} events");
    0
}
