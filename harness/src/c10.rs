//! C10 driver: twin EigenTrust engines (A, B) under seeded random histories of
//! update_local_trust / TrustProvider::update_trust / update_node_stats (all variants, amounts up
//! to 2^40) / add-remove pre-trusted / TrustProvider::remove_node, over 1..600 identities, with
//! self-ratings, isolated nodes, unknown identities and empty inputs. In `p2pnode` segments engine
//! A is the engine owned by a real P2PNode and is driven through report_peer_success /
//! report_peer_failure(_with_reason) / peer_trust (mapping of src/network.rs).
//!
//! The driver contains no expected values. It drives, records and projects:
//!   * ppb(x): f64 score -> integer parts-per-billion (rounded, clamped to +-2e9), non-finite
//!     values are listed in `bad` (trusted base);
//!   * identities are indices 1..n of the segment (NodeId bytes are random per segment);
//!   * the runtime runs with PAUSED tokio time: the virtual clock advances only while every task is
//!     blocked, so `fb` (virtual time spent in compute_global_trust >= 2000 ms) says exactly
//!     whether the 2 s timeout branch (fallback to the cache) was taken; machine load cannot
//!     trigger it. The acceptor counts such observations and judges them as documented there.
//! Events: Reset, Local, Stat, AddPre, RemPre, Remove, Compute, Query, Panic, Note.
//! `e` = "A" | "B" | "AB" (operation applied to both engines, A first).
use crate::common::{self, Args, Trace};
use futures::FutureExt;
use rand::Rng;
use rand::seq::SliceRandom;
use saorsa_core::adaptive::NodeId;
use saorsa_core::{EigenTrustEngine, NodeStatisticsUpdate, P2PNode, PeerFailureReason, TrustProvider};
use serde_json::{Value, json};
use std::collections::HashSet;
use std::panic::AssertUnwindSafe;
use std::sync::Arc;
use std::time::Instant;

/// Amount table for Uptime / Storage / Bandwidth / Compute updates; the trace logs the index.
pub const AMT: [u64; 12] = [0, 1, 2, 100, 3600, 86_399, 86_400, 1024, 1 << 20, (1 << 40) - 1, 1 << 40, 86_401];

pub fn ppb(x: f64) -> (i64, bool) {
    if !x.is_finite() {
        return (0, false);
    }
    let y = (x * 1e9).round();
    (y.clamp(-2.0e9, 2.0e9) as i64, true)
}

struct Eng {
    name: &'static str,
    eng: Arc<EigenTrustEngine>,
    node: Option<Arc<P2PNode>>,
}

struct Seg {
    ids: Vec<NodeId>,     // index i-1 -> identity i
    peers: Vec<String>,   // peer-id strings (p2pnode path)
    engs: Vec<Eng>,       // [A, B]
}

fn pmsg(e: Box<dyn std::any::Any + Send>) -> String {
    if let Some(s) = e.downcast_ref::<&str>() {
        s.to_string()
    } else if let Some(s) = e.downcast_ref::<String>() {
        s.clone()
    } else {
        "panic".into()
    }
}

/// Let tasks spawned by the code under test (TrustProvider::update_trust / remove_node use
/// tokio::spawn) run to completion: the driver itself runs as a spawned task on a current-thread
/// runtime (FIFO run queue), so yielding hands the CPU to every task queued before us.
async fn settle_to(base: usize) -> bool {
    let m = tokio::runtime::Handle::current().metrics();
    for i in 0..10_000 {
        tokio::task::yield_now().await;
        if i >= 2 && m.num_alive_tasks() <= base {
            return true;
        }
    }
    false
}

fn alive() -> usize {
    tokio::runtime::Handle::current().metrics().num_alive_tasks()
}

fn which(e: &str) -> &'static [usize] {
    match e {
        "A" => &[0],
        "B" => &[1],
        _ => &[0, 1],
    }
}

const KINDS: [&str; 9] = ["ok", "fail", "unavail", "corrupt", "viol", "up", "sto", "bw", "cpu"];

fn update_of(kind: &str, amt: usize) -> NodeStatisticsUpdate {
    match kind {
        "ok" => NodeStatisticsUpdate::CorrectResponse,
        "fail" => NodeStatisticsUpdate::FailedResponse,
        "unavail" => NodeStatisticsUpdate::DataUnavailable,
        "corrupt" => NodeStatisticsUpdate::CorruptedData,
        "viol" => NodeStatisticsUpdate::ProtocolViolation,
        "up" => NodeStatisticsUpdate::Uptime(AMT[amt]),
        "sto" => NodeStatisticsUpdate::StorageContributed(AMT[amt]),
        "bw" => NodeStatisticsUpdate::BandwidthContributed(AMT[amt]),
        _ => NodeStatisticsUpdate::ComputeContributed(AMT[amt]),
    }
}

impl Seg {
    async fn local(&self, t: &mut Trace, e: &str, from: usize, to: usize, ok: bool, spawned: bool) {
        for &k in which(e) {
            let en = &self.engs[k];
            let (f, to_) = (self.ids[from - 1].clone(), self.ids[to - 1].clone());
            let r = AssertUnwindSafe(async {
                if spawned {
                    let base = alive();
                    en.eng.update_trust(&f, &to_, ok);
                    if !settle_to(base).await {
                        eprintln!("c10: spawned update_trust task did not finish");
                        std::process::exit(2);
                    }
                } else {
                    en.eng.update_local_trust(&f, &to_, ok).await;
                }
            })
            .catch_unwind()
            .await;
            if let Err(p) = r {
                t.ev(json!({"ev":"Panic","e":en.name,"at":"update_local_trust","msg":pmsg(p)}));
            }
        }
        t.ev(json!({"ev":"Local","e":e,"from":from,"to":to,"ok":ok,
                    "via": if spawned {"TrustProvider::update_trust"} else {"update_local_trust"}}));
    }

    /// One statistics report. On a P2PNode-owned engine the report kinds go through the public
    /// report_peer_* API (reason variants chosen by `alt`), contribution kinds through the engine.
    async fn stat(&self, t: &mut Trace, e: &str, n: usize, kind: &str, amt: usize, alt: bool) {
        let mut via = "update_node_stats";
        for &k in which(e) {
            let en = &self.engs[k];
            let id = self.ids[n - 1].clone();
            let peer = self.peers[n - 1].clone();
            let mut used_node = false;
            let r = AssertUnwindSafe(async {
                if let Some(node) = &en.node {
                    let res = match kind {
                        "ok" => Some(node.report_peer_success(&peer).await),
                        "fail" if alt => Some(node.report_peer_failure(&peer).await),
                        "fail" => {
                            let reason = [PeerFailureReason::Timeout, PeerFailureReason::ConnectionFailed, PeerFailureReason::Refused][amt % 3].clone();
                            Some(node.report_peer_failure_with_reason(&peer, reason).await)
                        }
                        "unavail" => Some(node.report_peer_failure_with_reason(&peer, PeerFailureReason::DataUnavailable).await),
                        "corrupt" => Some(node.report_peer_failure_with_reason(&peer, PeerFailureReason::CorruptedData).await),
                        "viol" => Some(node.report_peer_failure_with_reason(&peer, PeerFailureReason::ProtocolError).await),
                        _ => None,
                    };
                    if let Some(res) = res {
                        used_node = true;
                        return res.is_ok();
                    }
                }
                en.eng.update_node_stats(&id, update_of(kind, amt)).await;
                true
            })
            .catch_unwind()
            .await;
            match r {
                Err(p) => t.ev(json!({"ev":"Panic","e":en.name,"at":"update_node_stats","msg":pmsg(p)})),
                Ok(false) => t.ev(json!({"ev":"Panic","e":en.name,"at":"report_peer","msg":"report returned an error"})),
                Ok(true) => {}
            }
            if used_node {
                via = "P2PNode::report_peer";
            }
        }
        t.ev(json!({"ev":"Stat","e":e,"n":n,"kind":kind,"amt":amt,"via":via}));
    }

    async fn add_pre(&self, t: &mut Trace, e: &str, n: usize) {
        for &k in which(e) {
            self.engs[k].eng.add_pre_trusted(self.ids[n - 1].clone()).await;
        }
        t.ev(json!({"ev":"AddPre","e":e,"n":n}));
    }

    async fn rem_pre(&self, t: &mut Trace, e: &str, n: usize) {
        for &k in which(e) {
            self.engs[k].eng.remove_pre_trusted(&self.ids[n - 1]).await;
        }
        t.ev(json!({"ev":"RemPre","e":e,"n":n}));
    }

    async fn remove(&self, t: &mut Trace, e: &str, n: usize) {
        for &k in which(e) {
            let base = alive();
            self.engs[k].eng.remove_node(&self.ids[n - 1]);
            if !settle_to(base).await {
                eprintln!("c10: spawned remove_node task did not finish");
                std::process::exit(2);
            }
        }
        t.ev(json!({"ev":"Remove","e":e,"n":n,"via":"TrustProvider::remove_node"}));
    }

    async fn compute(&self, t: &mut Trace, e: &str) {
        for &k in which(e) {
            let en = &self.engs[k];
            let t0 = Instant::now();
            let v0 = tokio::time::Instant::now();
            let r = AssertUnwindSafe(en.eng.compute_global_trust()).catch_unwind().await;
            let ms = t0.elapsed().as_millis() as u64;
            // virtual (paused) tokio clock: it advances only while the runtime is idle, i.e. while the
            // computation is blocked; >= 2000 ms means the timeout branch (cache fallback) was taken
            let vms = v0.elapsed().as_millis() as u64;
            match r {
                Err(p) => t.ev(json!({"ev":"Panic","e":en.name,"at":"compute_global_trust","msg":pmsg(p)})),
                Ok(g) => {
                    let n = self.ids.len();
                    let mut v = vec![0i64; n];
                    let mut dom: Vec<usize> = Vec::new();
                    let mut bad: Vec<usize> = Vec::new();
                    let mut foreign = 0usize;
                    for (i, id) in self.ids.iter().enumerate() {
                        if let Some(x) = g.get(id) {
                            dom.push(i + 1);
                            let (q, fin) = ppb(*x);
                            v[i] = q;
                            if !fin {
                                bad.push(i + 1);
                            }
                        }
                    }
                    if dom.len() != g.len() {
                        foreign = g.len() - dom.len();
                    }
                    t.ev(json!({"ev":"Compute","e":en.name,"dom":dom,"v":v,"bad":bad,"foreign":foreign,"ms":ms,"vms":vms,"fb":vms >= 2000}));
                }
            }
        }
    }

    fn query(&self, t: &mut Trace, e: &str, n: usize) {
        for &k in which(e) {
            let en = &self.engs[k];
            let (x, via) = match &en.node {
                Some(node) => (node.peer_trust(&self.peers[n - 1]), "P2PNode::peer_trust"),
                None => (en.eng.get_trust(&self.ids[n - 1]), "TrustProvider::get_trust"),
            };
            let (q, fin) = ppb(x);
            t.ev(json!({"ev":"Query","e":en.name,"n":n,"x":q,"fin":fin,"via":via}));
        }
    }
}

async fn make_node(dir: &std::path::Path) -> Result<Arc<P2PNode>, String> {
    let mut cfg = saorsa_core::NodeConfig::builder().listen_port(0).ipv6(false).build().map_err(|e| e.to_string())?;
    cfg.bootstrap_cache_config = Some(saorsa_core::bootstrap::CacheConfig { cache_dir: dir.to_path_buf(), ..Default::default() });
    let node = P2PNode::new(cfg).await.map_err(|e| e.to_string())?;
    Ok(Arc::new(node))
}

fn pick_amt(rng: &mut impl Rng) -> usize {
    rng.gen_range(0..AMT.len())
}

fn pick_kind(rng: &mut impl Rng) -> &'static str {
    // reports dominate; contributions less frequent
    match rng.gen_range(0..20) {
        0..=6 => "ok",
        7..=9 => "fail",
        10 => "unavail",
        11 => "corrupt",
        12 => "viol",
        13 | 14 => "up",
        15 | 16 => "sto",
        17 => "bw",
        _ => "cpu",
    }
}

async fn segment(t: &mut Trace, rng: &mut rand_chacha::ChaCha8Rng, seg: u64, kind: &str, ops: u64, tmp: &std::path::Path) {
    let n: usize = match kind {
        "tiny" => rng.gen_range(1..=4),
        "small" | "cycle" | "p2pnode" => rng.gen_range(3..=12),
        "medium" => rng.gen_range(30..=130),
        "edge100" => rng.gen_range(97..=104),
        "edge500" => rng.gen_range(497..=504),
        _ => rng.gen_range(420..=600),
    };
    let hexids = kind != "p2pnode" || rng.gen_bool(0.7);
    let mut ids = Vec::new();
    let mut peers = Vec::new();
    for i in 0..n {
        let mut b = [0u8; 32];
        rng.fill(&mut b);
        if hexids || i % 3 != 0 {
            peers.push(hex::encode(b));
        } else {
            peers.push(format!("peer_{seg}_{i}_{}", hex::encode(&b[..4])));
        }
        // the identity the engine sees is whatever the library's own mapping gives for the peer id
        ids.push(saorsa_core::network::peer_id_to_trust_node_id(&peers[i]));
    }
    // initial pre-trusted set (constructor argument), possibly empty
    let npre = match rng.gen_range(0..4) {
        0 => 0,
        1 => 1,
        _ => rng.gen_range(1..=3.min(n)),
    };
    let mut idx: Vec<usize> = (1..=n).collect();
    idx.shuffle(rng);
    let pre: Vec<usize> = idx[..npre].to_vec();
    let preset: HashSet<NodeId> = pre.iter().map(|&i| ids[i - 1].clone()).collect();

    let mut engs = Vec::new();
    let mut via = "engine";
    if kind == "p2pnode" {
        match make_node(&tmp.join(format!("n{seg}"))).await {
            Ok(node) => match node.trust_engine() {
                Some(eng) => {
                    via = "p2pnode";
                    engs.push(Eng { name: "A", eng, node: Some(node) });
                }
                None => t.ev(json!({"ev":"Note","what":"p2pnode","msg":"node has no trust engine"})),
            },
            Err(e) => t.ev(json!({"ev":"Note","what":"p2pnode","msg":format!("unavailable: {e}")})),
        }
    }
    let ctor_pre = via != "p2pnode";
    if engs.is_empty() {
        engs.push(Eng { name: "A", eng: Arc::new(EigenTrustEngine::new(preset.clone())), node: None });
    }
    engs.push(Eng {
        name: "B",
        eng: Arc::new(EigenTrustEngine::new(if ctor_pre { preset.clone() } else { HashSet::new() })),
        node: None,
    });
    let s = Seg { ids, peers, engs };
    t.ev(json!({"ev":"Reset","seg":seg,"kind":kind,"n":n,"pre": if ctor_pre { pre.clone() } else { vec![] },"via":via}));
    if !ctor_pre {
        for &p in &pre {
            s.add_pre(t, "AB", p).await;
        }
    }
    // "unknown" identities: the upper part of the universe is never touched by updates in some segments
    let active = if rng.gen_bool(0.5) { n } else { (n * 3 / 4).max(1) };
    let node_of = |rng: &mut rand_chacha::ChaCha8Rng| rng.gen_range(1..=active);

    if rng.gen_bool(0.3) {
        // empty input: compute and query before anything was reported
        s.compute(t, "AB").await;
        s.query(t, "AB", rng.gen_range(1..=n));
    }
    // structured start graph
    match if kind == "cycle" { 0 } else { rng.gen_range(0..6) } {
        0 => {
            let k = rng.gen_range(2..=active.clamp(2, 7)).min(active);
            for i in 1..=k {
                s.local(t, "AB", i, i % k + 1, true, false).await;
            }
        }
        1 => {
            for i in 2..=active.min(40) {
                s.local(t, "AB", 1, i, true, false).await;
            }
        }
        2 => {
            let k = active.min(6);
            for i in 1..=k {
                for j in 1..=k {
                    if i != j {
                        s.local(t, "AB", i, j, true, false).await;
                    }
                }
            }
        }
        3 => {
            for _ in 0..(active * 2).min(1500) {
                let (a, b) = (node_of(rng), node_of(rng));
                s.local(t, "AB", a, b, rng.gen_bool(0.8), false).await;
            }
        }
        4 => {
            for i in 1..=active.min(300) {
                let k = pick_kind(rng);
                let a = pick_amt(rng);
                s.stat(t, "AB", i, k, a, false).await;
            }
        }
        _ => {}
    }
    let big = n > 200;
    // A P2PNode owns a background task that recomputes its engine every 300 s of (virtual) time; every compute
    // that runs into the timeout advances the paused clock by 2 s. Stop well before, so that no computation
    // the trace does not show can touch engine A.
    let seg_start = tokio::time::Instant::now();
    for _ in 0..ops {
        if via == "p2pnode" && seg_start.elapsed() > std::time::Duration::from_secs(200) {
            t.ev(json!({"ev":"Note","what":"p2pnode","msg":"segment cut short at 200 s of virtual time"}));
            break;
        }
        match rng.gen_range(0..100) {
            0..=27 => {
                let from = node_of(rng);
                let to = if rng.gen_bool(0.07) { from } else { node_of(rng) };
                s.local(t, "AB", from, to, rng.gen_bool(0.7), rng.gen_bool(0.15)).await;
            }
            28..=52 => {
                let k = pick_kind(rng);
                let a = pick_amt(rng);
                s.stat(t, "AB", node_of(rng), k, a, rng.gen_bool(0.5)).await;
            }
            53..=56 => s.add_pre(t, "AB", node_of(rng)).await,
            57..=59 => s.rem_pre(t, "AB", node_of(rng)).await,
            60..=65 => s.remove(t, "AB", node_of(rng)).await,
            66..=75 => {
                for _ in 0..rng.gen_range(1..4) {
                    s.query(t, "AB", rng.gen_range(1..=n));
                }
            }
            76..=81 if !big || rng.gen_bool(0.3) => s.compute(t, "AB").await,
            76..=81 => {}
            _ if big && rng.gen_bool(0.75) => {
                let k = pick_kind(rng);
                let a = pick_amt(rng);
                s.stat(t, "AB", node_of(rng), k, a, false).await;
            }
            _ => {
                // probe: twin comparison around one extra report for p
                let p = if rng.gen_bool(0.1) { rng.gen_range(1..=n) } else { node_of(rng) };
                s.compute(t, "AB").await;
                match rng.gen_range(0..10) {
                    0..=4 => {
                        s.stat(t, "B", p, "ok", 0, false).await;
                        s.compute(t, "B").await;
                        s.query(t, "B", p);
                        s.stat(t, "A", p, "ok", 0, true).await;
                        if rng.gen_bool(0.5) {
                            s.compute(t, "A").await;
                        }
                    }
                    5..=7 => {
                        let k = ["fail", "unavail", "corrupt", "viol"][rng.gen_range(0..4)];
                        let a = pick_amt(rng);
                        s.stat(t, "B", p, k, a, false).await;
                        s.compute(t, "B").await;
                        s.stat(t, "A", p, k, a, true).await;
                        if rng.gen_bool(0.5) {
                            s.compute(t, "A").await;
                        }
                    }
                    _ => {
                        // severity: A gets a plain failure, B the severe report; then the other way round
                        let sev = if rng.gen_bool(0.5) { "corrupt" } else { "viol" };
                        let a = pick_amt(rng);
                        s.stat(t, "A", p, "fail", a, rng.gen_bool(0.5)).await;
                        s.stat(t, "B", p, sev, 0, false).await;
                        s.compute(t, "AB").await;
                        s.stat(t, "A", p, sev, 0, false).await;
                        s.stat(t, "B", p, "fail", a, false).await;
                        if rng.gen_bool(0.5) {
                            s.compute(t, "AB").await;
                        }
                    }
                }
            }
        }
    }
    s.compute(t, "AB").await;
    for _ in 0..3 {
        s.query(t, "AB", rng.gen_range(1..=n));
    }
    for en in &s.engs {
        if let Some(node) = &en.node {
            let _ = AssertUnwindSafe(node.shutdown()).catch_unwind().await;
        }
    }
}

pub fn drive(a: &Args) -> i32 {
    let out = a.str("out", "/dev/stdout");
    let segments = a.num("segments", 40);
    let ops = a.num("ops", 60);
    let large = a.num("large", 2);
    let p2p = a.num("p2pnode", 2);
    common::quiet_panics();
    let tmp = match tempfile::tempdir() {
        Ok(d) => d,
        Err(e) => {
            eprintln!("tempdir: {e}");
            return 2;
        }
    };
    let tmp_path = tmp.path().to_path_buf();
    let rt = tokio::runtime::Builder::new_current_thread().enable_all().start_paused(true).build().expect("runtime");
    let lines = rt.block_on(async move {
        // run the driver as a task so that yield_now() lets tasks spawned by the code under test run first
        let h = tokio::spawn(async move {
            let mut t = Trace::create(&out);
            let mut rng = common::rng(10);
            let mut seg = 0u64;
            let plan = ["tiny", "small", "cycle", "small", "medium", "tiny", "small", "edge100", "small", "medium"];
            for i in 0..segments {
                segment(&mut t, &mut rng, seg, plan[(i % plan.len() as u64) as usize], ops, &tmp_path).await;
                seg += 1;
            }
            for i in 0..large {
                let kind = if i % 2 == 0 { "large" } else { "edge500" };
                segment(&mut t, &mut rng, seg, kind, ops * 2, &tmp_path).await;
                seg += 1;
            }
            for _ in 0..p2p {
                segment(&mut t, &mut rng, seg, "p2pnode", ops, &tmp_path).await;
                seg += 1;
            }
            t.finish()
        });
        h.await
    });
    match lines {
        Ok(n) => {
            eprintln!("c10 drive: {n} events");
            0
        }
        Err(e) => {
            eprintln!("c10 driver task failed: {e}");
            2
        }
    }
}


/// Race segments (real threads): `TrustProvider::remove_node` is called while `compute_global_trust` is in flight on a
/// multi-thread runtime. Whatever the interleaving, afterwards the removed identity must read as 0 / unknown. The two
/// operations are logged in the order the result shows they took effect (the computed map still lists the victim: the
/// computation came first), followed by queries; then a second, quiescent computation and the same queries.
pub fn race(a: &Args) -> i32 {
    let out = a.str("out", "/dev/stdout");
    let segments = a.num("segments", 6);
    common::quiet_panics();
    let rt = tokio::runtime::Builder::new_multi_thread().worker_threads(4).enable_all().build().expect("runtime");
    let mut t = Trace::create(&out);
    let mut rng = common::rng(1010);
    for seg in 0..segments {
        let n: usize = rng.gen_range(250..=500);
        let ids: Vec<NodeId> = (0..n)
            .map(|_| {
                let mut b = [0u8; 32];
                rng.fill(&mut b);
                saorsa_core::network::peer_id_to_trust_node_id(&hex::encode(b))
            })
            .collect();
        let npre = rng.gen_range(1..=3usize);
        let pre: Vec<usize> = (1..=npre).collect();
        let preset: HashSet<NodeId> = pre.iter().map(|&i| ids[i - 1].clone()).collect();
        let eng = Arc::new(EigenTrustEngine::new(preset));
        let s = Seg { ids: ids.clone(), peers: vec![String::new(); n], engs: vec![Eng { name: "A", eng: eng.clone(), node: None }] };
        t.ev(json!({"ev":"Reset","seg":10_000 + seg,"kind":"race","n":n,"pre":pre,"via":"engine"}));
        // a graph dense enough for the computation to take a while; the victims have edges but no statistics
        let edges = n * rng.gen_range(6..14);
        let victims: Vec<usize> = (0..rng.gen_range(1..=3)).map(|_| rng.gen_range(npre + 1..=n)).collect();
        let delay_us: u64 = rng.gen_range(0..40_000);
        let mut evs: Vec<Value> = Vec::new();
        let computed = rt.block_on(async {
            for _ in 0..edges {
                let (f, to) = (rng.gen_range(1..=n), rng.gen_range(1..=n));
                let ok = rng.gen_bool(0.85);
                eng.update_local_trust(&ids[f - 1], &ids[to - 1], ok).await;
                evs.push(json!({"ev":"Local","e":"A","from":f,"to":to,"ok":ok,"via":"update_local_trust"}));
            }
            for &v in &victims {
                let w = rng.gen_range(1..=n);
                eng.update_local_trust(&ids[w - 1], &ids[v - 1], true).await;
                evs.push(json!({"ev":"Local","e":"A","from":w,"to":v,"ok":true,"via":"update_local_trust"}));
            }
            let e2 = eng.clone();
            let h = tokio::spawn(async move { e2.compute_global_trust().await });
            tokio::time::sleep(std::time::Duration::from_micros(delay_us)).await;
            for &v in &victims {
                eng.remove_node(&ids[v - 1]);
                tokio::task::yield_now().await;
            }
            let g = h.await;
            // let the spawned removal tasks finish
            tokio::time::sleep(std::time::Duration::from_millis(300)).await;
            g
        });
        for e in evs {
            t.ev(e);
        }
        let g = match computed {
            Ok(g) => g,
            Err(e) => {
                t.ev(json!({"ev":"Panic","e":"A","at":"compute_global_trust (race)","msg":e.to_string()}));
                continue;
            }
        };
        let before: Vec<usize> = victims.iter().copied().filter(|v| !g.contains_key(&ids[v - 1])).collect();
        let after: Vec<usize> = victims.iter().copied().filter(|v| g.contains_key(&ids[v - 1])).collect();
        for &v in &before {
            t.ev(json!({"ev":"Remove","e":"A","n":v,"via":"TrustProvider::remove_node (before the concurrent computation)"}));
        }
        let mut v = vec![0i64; n];
        let mut dom: Vec<usize> = Vec::new();
        let mut bad: Vec<usize> = Vec::new();
        for (i, id) in ids.iter().enumerate() {
            if let Some(x) = g.get(id) {
                dom.push(i + 1);
                let (q, fin) = ppb(*x);
                v[i] = q;
                if !fin {
                    bad.push(i + 1);
                }
            }
        }
        t.ev(json!({"ev":"Compute","e":"A","dom":dom,"v":v,"bad":bad,"foreign":g.len() - dom.len(),"ms":0,"vms":0,"fb":false,"race_delay_us":delay_us}));
        for &vv in &after {
            t.ev(json!({"ev":"Remove","e":"A","n":vv,"via":"TrustProvider::remove_node (during the computation)"}));
        }
        for &vv in &victims {
            s.query(&mut t, "A", vv);
        }
        // quiescent: a second computation, then the same queries and a few others
        rt.block_on(async { s.compute(&mut t, "A").await });
        for &vv in &victims {
            s.query(&mut t, "A", vv);
        }
        for _ in 0..3 {
            s.query(&mut t, "A", rng.gen_range(1..=n));
        }
    }
    let n = t.finish();
    eprintln!("c10 race: {n} events");
    0
}

#[allow(dead_code)]
fn _unused(_: Value) {}
