//! C05 driver: hostile inbound bytes. Every entry point that takes bytes from a peer is called
//! with random bytes, valid messages of every kind and structure-aware mutations of them; the
//! outcome (returned / panicked, accepted / rejected, surfaced source identity, what was stored,
//! peak bytes allocated during the call) is logged with the features of the input that the
//! admission rule speaks about. Oracle: spec/Trace_Inbound.tla (the rules of Inbound.tla).
use crate::common::{self, Args, Trace};
use crate::net::{self, Endpoint, Fake, FakeReply, Hub, now_secs};
use rand::Rng;
use saorsa_core::dht::core_engine::{DhtCoreEngine, DhtKey, DhtRequestWrapper, NodeCapacity, NodeId, NodeInfo};
use saorsa_core::dht::network_integration::{DhtMessage, DhtResponse};
use saorsa_core::dht_network_manager::{DhtMessageType, DhtNetworkMessage, DhtNetworkOperation, DhtNetworkResult};
use saorsa_core::network::P2PEvent;
use saorsa_core::placement::dht_records::DhtRecord;
use saorsa_core::transport_handle::TransportHandle;
use serde_json::json;
use std::time::{Duration, SystemTime};

fn measure<T>(f: impl FnOnce() -> T + std::panic::UnwindSafe) -> (Result<T, String>, i64) {
    crate::alloc::reset_peak();
    let base = crate::alloc::current();
    let r = common::catch(f);
    let peak = crate::alloc::peak().saturating_sub(base) as i64;
    (r, peak)
}

/// Structure-aware mutation: flip bits / overwrite bytes / truncate / extend / splice a length or tag byte.
fn mutate(mut b: Vec<u8>, rng: &mut impl Rng) -> Vec<u8> {
    let n = rng.gen_range(1..4);
    for _ in 0..n {
        if b.is_empty() {
            b.push(rng.r#gen());
            continue;
        }
        match rng.gen_range(0..7) {
            0 => {
                let i = rng.gen_range(0..b.len());
                b[i] ^= 1 << rng.gen_range(0..8);
            }
            1 => {
                let i = rng.gen_range(0..b.len());
                b[i] = [0u8, 1, 0x7f, 0x80, 0xff, 0xfe][rng.gen_range(0..6)];
            }
            2 => {
                let k = rng.gen_range(0..b.len());
                b.truncate(k);
            }
            3 => {
                for _ in 0..rng.gen_range(1..64) {
                    b.push(rng.r#gen());
                }
            }
            4 => {
                // varint-looking length blow-up near the front (length prefixes, counts, tags live there)
                let i = rng.gen_range(0..b.len().min(24));
                b.splice(i..i + 1, [0xff, 0xff, 0xff, 0xff, 0x0f]);
            }
            5 => {
                let i = rng.gen_range(0..b.len());
                let j = rng.gen_range(i..b.len());
                b.drain(i..j);
            }
            _ => {
                let i = rng.gen_range(0..b.len());
                b.insert(i, rng.r#gen());
            }
        }
    }
    b
}

fn dht_message(kind: usize, id: &str, src: &str, vlen: usize, rng: &mut impl Rng) -> DhtNetworkMessage {
    // a small pool of keys: the store of the node under test stays small, so its own (legitimate,
    // amortised) growth does not show up in the per-message allocation measurements
    let mut key = [0u8; 32];
    key[0] = rng.gen_range(0..16);
    let payload = match kind % 7 {
        0 => DhtNetworkOperation::Put { key, value: vec![7u8; vlen] },
        1 => DhtNetworkOperation::Get { key },
        2 => DhtNetworkOperation::FindNode { key },
        3 => DhtNetworkOperation::FindValue { key },
        4 => DhtNetworkOperation::Ping,
        5 => DhtNetworkOperation::Join,
        _ => DhtNetworkOperation::Leave,
    };
    let (message_type, result) = match kind / 7 % 3 {
        0 => (DhtMessageType::Request, None),
        1 => (DhtMessageType::Response, Some(DhtNetworkResult::PongReceived { responder: src.to_string(), latency: Duration::from_millis(1) })),
        _ => (DhtMessageType::Broadcast, None),
    };
    DhtNetworkMessage { message_id: id.to_string(), source: src.to_string(), target: None, message_type, payload, result, timestamp: now_secs(), ttl: 3, hop_count: 0 }
}

pub fn drive(a: &Args) -> i32 {
    let out = a.str("out", "/dev/stdout");
    let n = a.num("inputs", 4000);
    let mut t = Trace::create(&out);
    let mut rng = common::rng(5);
    common::quiet_panics();
    t.ev(json!({"ev":"Reset"}));

    // ---- (a) frame parser of the receive loop: timestamp window, source identity
    for i in 0..n {
        let conn = net::hex_id(&mut rng);
        let claimed = if rng.gen_bool(0.5) { conn.clone() } else { net::hex_id(&mut rng) };
        let offs: [i64; 16] = [-1_000_000, -3600, -302, -301, -300, -299, -298, -10, 0, 10, 28, 29, 30, 31, 32, 3600];
        let off = if rng.gen_bool(0.8) { offs[rng.gen_range(0..offs.len())] } else { rng.gen_range(-400..100) };
        let before = now_secs() as i64;
        // extremes of the 64-bit range and of its signed reading: arithmetic on the timestamp must not overflow anywhere
        let b = before as u64;
        let extremes: [u64; 16] = [u64::MAX, 0, 1, 1 << 63, (1 << 63) - 1, (1 << 63) + 1, (1 << 63) + b, (1 << 63) + b / 2, (1 << 63) + b - 1,
                                   (1 << 63) + b + 1, u64::MAX - b, u64::MAX - 300, u64::MAX - 29, 1 << 62, u32::MAX as u64, (u32::MAX as u64) + 1];
        let ts = if i % 10 == 0 { extremes[(i / 10) as usize % extremes.len()] } else { (before + off).max(0) as u64 };
        let data: Vec<u8> = (0..rng.gen_range(0..64)).map(|_| rng.r#gen()).collect();
        let valid = saorsa_core::network::verif_encode_wire("/verif/topic", data.clone(), &claimed, ts);
        let (bytes, built) = match rng.gen_range(0..10) {
            0..=5 => (valid, "valid"),
            6..=7 => (mutate(valid, &mut rng), "mutated"),
            _ => ((0..rng.gen_range(0..300)).map(|_| rng.r#gen()).collect(), "random"),
        };
        let b2 = bytes.clone();
        let c2 = conn.clone();
        let (r, peak) = measure(move || saorsa_core::network::verif_parse_protocol_message(&b2, &c2));
        let after = now_secs() as i64;
        // features of the bytes as the library's own decoder sees them
        let dec = saorsa_core::network::verif_decode_wire(&bytes);
        let (decodes, dts) = match &dec {
            Some((_, _, _, ts)) => (true, *ts),
            None => (false, 0),
        };
        // offsets relative to the clock band [before, after], clamped to +-100000 for 32-bit integers
        let clamp = |x: i128| x.clamp(-100_000, 100_000) as i64;
        let lo = clamp(dts as i128 - after as i128); // smallest possible offset
        let hi = clamp(dts as i128 - before as i128); // largest possible offset
        let (panic, surfaced, source_ok, data_ok) = match r {
            Err(_) => (true, false, false, false),
            Ok(None) => (false, false, true, true),
            Ok(Some(P2PEvent::Message { source, data: d, .. })) => (false, true, source == conn, dec.as_ref().is_some_and(|x| x.1 == d)),
            Ok(Some(_)) => (false, true, false, false),
        };
        t.ev(json!({"ev":"Frame","built":built,"len":bytes.len(),"decodes":decodes,"off_lo":lo,"off_hi":hi,"claimed_same":claimed == conn,
                    "panic":panic,"surfaced":surfaced,"source_ok":source_ok,"data_ok":data_ok,"peak":peak}));
    }

    // ---- (b) DHT message handler of a real manager
    let rt = net::paused_rt();
    let mut evs = Vec::new();
    rt.block_on(async {
        let hub = Hub::new(common::rng(5001), 0);
        let me = net::hex_id(&mut rng);
        let Ok(node) = net::spawn_real(&hub, &me, &net::addr_for(1), Duration::from_secs(2), 8).await else { return };
        let peer = net::hex_id(&mut rng);
        hub.register(&peer, &net::addr_for(10), Endpoint::Fake(Fake { lookup_reply: FakeReply::Silent, ack_put: false }));
        let _ = node.mgr.connect_to_peer(&net::addr_for(10)).await;
        net::settle().await;
        for i in 0..n {
            let kind = rng.gen_range(0..21);
            let vlen = [0usize, 1, 100, 511, 512, 513, 514, 600, 2000][rng.gen_range(0..9)];
            let msg = dht_message(kind, &format!("m{i}"), &peer, vlen, &mut rng);
            let valid = postcard::to_stdvec(&msg).unwrap_or_default();
            let (bytes, built) = match rng.gen_range(0..12) {
                0..=4 => (valid, "valid"),
                5..=7 => (mutate(valid, &mut rng), "mutated"),
                8 => ((0..rng.gen_range(0..2000)).map(|_| rng.r#gen()).collect(), "random"),
                9 => {
                    // oversized: valid prefix padded beyond 64 KiB, or random
                    let mut b = valid;
                    b.resize(65_537 + rng.gen_range(0..70_000), 0xAB);
                    (b, "oversized")
                }
                10 => ((0..65_537 + rng.gen_range(0..65_000usize)).map(|_| rng.r#gen::<u8>()).collect(), "oversized"),
                _ => {
                    let mut b = valid;
                    b.resize(65_536, 0);
                    (b, "at-limit")
                }
            };
            let dec: Option<DhtNetworkMessage> = postcard::from_bytes(&bytes).ok();
            let (is_put, put_len, put_key, put_val) = match &dec {
                Some(DhtNetworkMessage { payload: DhtNetworkOperation::Put { key, value }, message_type: DhtMessageType::Request, .. }) => (true, value.len(), Some(*key), value.clone()),
                _ => (false, 0, None, vec![]),
            };
            let m2 = node.mgr.clone();
            let b2 = bytes.clone();
            let p2 = peer.clone();
            crate::alloc::reset_peak();
            let base = crate::alloc::current();
            let h = tokio::spawn(async move { m2.handle_dht_message(&b2, &p2).await.map(|o| o.map(|v| v.len())).map_err(|e| e.to_string()) });
            let r = h.await;
            let peak = crate::alloc::peak().saturating_sub(base) as i64;
            let (panic, ok, reply_len) = match r {
                Err(e) => (e.is_panic(), false, 0),
                Ok(Ok(Some(l))) => (false, true, l),
                Ok(Ok(None)) => (false, true, 0),
                Ok(Err(_)) => (false, false, 0),
            };
            let stored = match put_key {
                // "stored" = the node now holds exactly the bytes of this message under its key
                Some(k) => node.mgr.get_local(&k).await.ok().flatten().filter(|v| *v == put_val).map(|v| v.len() as i64).unwrap_or(-1),
                None => -1,
            };
            evs.push(json!({"ev":"DhtMsg","built":built,"len":bytes.len(),"decodes":dec.is_some(),"is_put":is_put,"put_len":put_len,
                            "panic":panic,"ok":ok,"reply_len":reply_len,"stored_len":stored,"peak":peak}));
        }
        // a hostile peer answers a lookup with a value of arbitrary size: nothing over the limit may be retained
        for (i, vlen) in [0usize, 1, 511, 512, 513, 600, 4096, 60_000].iter().enumerate() {
            let liar = net::hex_id(&mut rng);
            let addr = net::addr_for(40 + i);
            hub.register(&liar, &addr, Endpoint::Fake(Fake { lookup_reply: FakeReply::Value(vec![0x5a; *vlen]), ack_put: false }));
            let _ = node.mgr.connect_to_peer(&addr).await;
            net::settle().await;
            let mut key = [0u8; 32];
            key[0] = 200 + i as u8;
            let m2 = node.mgr.clone();
            let h = tokio::spawn(async move { m2.get(&key).await.map(|r| matches!(r, DhtNetworkResult::GetSuccess { .. })).unwrap_or(false) });
            let r = h.await;
            let held = node.mgr.get_local(&key).await.ok().flatten().map(|v| v.len() as i64).unwrap_or(-1);
            evs.push(json!({"ev":"HostileGet","vlen":vlen,"panic":r.as_ref().is_err_and(|e| e.is_panic()),"found":r.unwrap_or(false),"held_len":held}));
            hub.set_silent(&liar, true);
        }
        hub.set_silent(&peer, true);
        let _ = node.mgr.stop().await;
        let _ = node.transport.stop().await;
    });
    drop(rt);
    for e in evs {
        t.ev(e);
    }

    // ---- (c) engine request handler: counts capped, values bounded; (d) records; (e) envelopes
    let rt = common::rt();
    rt.block_on(async {
        let Ok(mut eng) = DhtCoreEngine::verif_new_log_only(NodeId::from_bytes([1u8; 32])) else { return };
        let mut infos = Vec::new();
        for i in 0..60u8 {
            let mut id = [0u8; 32];
            rng.fill(&mut id);
            infos.push(NodeInfo { id: NodeId::from_bytes(id), address: format!("verif-{i}"), last_seen: SystemTime::now(), capacity: NodeCapacity::default() });
        }
        for inf in infos {
            let _ = eng.join_network(vec![inf]).await;
        }
        for i in 0..n {
            let mut key = [0u8; 32];
            key[0] = rng.gen_range(0..16);
            key[1] = 1;
            let count = [0usize, 1, 19, 20, 21, 64, 1000, usize::MAX][rng.gen_range(0..8)];
            let vlen = [0usize, 1, 511, 512, 513, 600, 5000][rng.gen_range(0..7)];
            let msg = match i % 3 {
                0 => DhtMessage::FindNode { target: DhtKey::from_bytes(key), count },
                1 => DhtMessage::Store { key: DhtKey::from_bytes(key), value: vec![9u8; vlen], ttl: Duration::from_secs(60) },
                _ => DhtMessage::FindValue { key: DhtKey::from_bytes(key) },
            };
            let valid = postcard::to_stdvec(&DhtRequestWrapper { id: format!("r{i}"), message: msg }).unwrap_or_default();
            let bytes = if rng.gen_bool(0.6) { valid } else { mutate(valid, &mut rng) };
            let Ok(w) = postcard::from_bytes::<DhtRequestWrapper>(&bytes) else {
                t.ev(json!({"ev":"EngineReq","decodes":false,"panic":false,"kind":"undecodable","count":0,"nodes":0,"vlen":0,"acked":false,"held":false,"peak":0}));
                continue;
            };
            let (kind, cnt, vl, skey) = match &w.message {
                DhtMessage::FindNode { count, .. } => ("FindNode", (*count).min(1_000_000), 0, None),
                DhtMessage::Store { key, value, .. } => ("Store", 0, value.len(), Some((key.clone(), value.clone()))),
                DhtMessage::FindValue { .. } => ("FindValue", 0, 0, None),
                _ => ("Other", 0, 0, None),
            };
            let w2 = w.clone();
            crate::alloc::reset_peak();
            let base = crate::alloc::current();
            let resp = eng.handle_request(w).await;
            let mut peak = crate::alloc::peak().saturating_sub(base) as i64;
            if peak > 65_536 {
                // a bounded table of the engine (pending requests, at most 10 000 entries) may have doubled its capacity during
                // this call: amortised growth does not repeat, allocation caused by the message does - the same request again
                crate::alloc::reset_peak();
                let base = crate::alloc::current();
                let _ = eng.handle_request(w2).await;
                peak = peak.min(crate::alloc::peak().saturating_sub(base) as i64);
            }
            let (nodes, acked) = match &resp.response {
                DhtResponse::FindNodeReply { nodes, .. } => (nodes.len(), false),
                DhtResponse::FindValueReply { nodes, .. } => (nodes.len(), false),
                DhtResponse::StoreAck { .. } => (0, true),
                _ => (0, false),
            };
            let held = match skey {
                Some((k, v)) => eng.retrieve(&k).await.ok().flatten().is_some_and(|held| held == v),
                None => false,
            };
            t.ev(json!({"ev":"EngineReq","decodes":true,"panic":false,"kind":kind,"count":cnt,"nodes":nodes,"vlen":vl,"acked":acked,"held":held,"peak":peak}));
        }
        eng.signal_shutdown();
    });
    for _ in 0..n {
        let len = [0usize, 1, 100, 511, 512, 513, 514, 1000, 70_000][rng.gen_range(0..9)];
        let bytes: Vec<u8> = (0..len).map(|_| rng.r#gen()).collect();
        let b2 = bytes.clone();
        let (r, peak) = measure(move || DhtRecord::deserialize(&b2).is_ok());
        let b3 = bytes.clone();
        let (r2, _) = measure(move || TransportHandle::parse_request_envelope(&b3).is_some());
        t.ev(json!({"ev":"Record","len":len,"panic":r.is_err() || r2.is_err(),"ok":r.unwrap_or(false),"peak":peak}));
    }
    let nn = t.finish();
    eprintln!("c05 drive: {nn} events");
    0
}
