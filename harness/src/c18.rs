//! C18 driver: random histories of initialize / store / retrieve / change-password / clear-cache /
//! reopen with right, wrong and former passwords on the real EncryptedKeyStorageManager
//! (SecurityLevel::Fast), byte-level alteration of the store file, and crash images of the two
//! writing operations. Every call is an event; the oracle is spec/Trace_KeyStore.tla.
//!
//! Crash images are EMULATED (no H4 hook in the tree yet): the interrupted operation is run by the
//! real code on a copy of the store directory, which yields the real bytes of the new file; the
//! images "tmp partially written", "tmp written, not renamed" and "renamed" are then composed from
//! the real old and new bytes following the order of writes in encrypt_and_store (write
//! `<store>.tmp`, rename over `<store>`). Each image is probed by fresh managers.
//!
//! Trusted base: interning of seed material (equal token <=> equal bytes); password tokens are
//! indices into a fixed password list; composition of crash images as described above.
use crate::common::{self, Args, Trace};
use rand::Rng;
use saorsa_core::encrypted_key_storage::{EncryptedKeyStorageManager, SecurityLevel};
use saorsa_core::key_derivation::MasterSeed;
use saorsa_core::secure_memory::SecureString;
use serde_json::{Value, json};
use std::collections::HashMap;
use std::path::{Path, PathBuf};

// the last entries are near misses of earlier ones (surrounding whitespace): distinct passwords all the same
const STRONG: [&str; 6] = ["Corr3ct-H0rse_#1", "Zebra!Qu1et-77x", "T1ger&Lily-0range", "corr3ct-h0rse_#1", "Corr3ct-H0rse_#1 ", " Zebra!Qu1et-77x"];
const WEAK: [&str; 3] = ["abc", "Passw0rd-Secret!9", "aaaaaaaaaaaa"];

/// password token: 1..=6 strong, 7..=9 weak
fn pw(tok: usize) -> SecureString {
    let s = if tok <= STRONG.len() { STRONG[tok - 1] } else { WEAK[tok - 1 - STRONG.len()] };
    SecureString::from_plain_str(s).unwrap_or_else(|e| {
        eprintln!("c18: SecureString: {e}");
        std::process::exit(2)
    })
}

struct Ctx {
    t: Trace,
    rt: tokio::runtime::Runtime,
    seeds: HashMap<Vec<u8>, i64>,
}

enum Out<T> {
    Val(T),
    Panic,
}

impl Ctx {
    fn seed_tok(&mut self, b: &[u8]) -> i64 {
        let n = self.seeds.len() as i64 + 1;
        *self.seeds.entry(b.to_vec()).or_insert(n)
    }
    fn call<T>(&mut self, site: &str, f: impl std::future::Future<Output = T>) -> Out<T> {
        let rt = &self.rt;
        match common::catch(std::panic::AssertUnwindSafe(|| rt.block_on(f))) {
            Ok(v) => Out::Val(v),
            Err(p) => {
                self.t.ev(json!({"ev":"Panic","where":site,"msg":p}));
                Out::Panic
            }
        }
    }
    fn open(&mut self, path: &Path) -> EncryptedKeyStorageManager {
        match EncryptedKeyStorageManager::new(path, SecurityLevel::Fast) {
            Ok(m) => m,
            Err(e) => {
                eprintln!("c18: manager: {e}");
                std::process::exit(2)
            }
        }
    }
    /// retrieve with the given manager; 0 = error, otherwise token of the returned material
    fn retrieve(&mut self, m: &EncryptedKeyStorageManager, id: usize, p: usize) -> Option<i64> {
        let pass = pw(p);
        let sid = format!("seed-{id}");
        match self.call("retrieve_master_seed", m.retrieve_master_seed(&sid, &pass)) {
            Out::Val(Ok(s)) => {
                let b = s.seed_material().to_vec();
                Some(self.seed_tok(&b))
            }
            Out::Val(Err(_)) => Some(0),
            Out::Panic => None,
        }
    }
    fn retrieve_ev(&mut self, m: &EncryptedKeyStorageManager, id: usize, p: usize) {
        if let Some(res) = self.retrieve(m, id, p) {
            self.t.ev(json!({"ev":"Retrieve","id":id,"pw":p,"res":res}));
        }
    }
}

fn tmp_path(store: &Path) -> PathBuf {
    store.with_extension("tmp")
}

fn new_seed(rng: &mut impl Rng) -> MasterSeed {
    let n = if rng.gen_bool(0.2) { 64 } else { 32 };
    let bytes: Vec<u8> = (0..n).map(|_| rng.r#gen()).collect();
    MasterSeed::from_entropy(&bytes).unwrap_or_else(|e| {
        eprintln!("c18: seed: {e}");
        std::process::exit(2)
    })
}

/// Probe one crash image: every (seed id, strong password) with a fresh manager each.
fn probe(c: &mut Ctx, store: &Path) -> Vec<Value> {
    let mut out = Vec::new();
    for id in 1..=3usize {
        for p in 1..=STRONG.len() {
            let m = c.open(store);
            if let Some(res) = c.retrieve(&m, id, p) {
                out.push(json!({"id":id,"pw":p,"res":res}));
            }
        }
    }
    out
}

/// One history segment.
fn history(c: &mut Ctx, rng: &mut impl Rng, ops: u64, root: &Path, seg: u64) {
    let dir = root.join(format!("h{seg}"));
    let _ = std::fs::create_dir_all(&dir);
    let store = dir.join("store.enc");
    c.t.ev(json!({"ev":"Reset","kind":"history","level":"Fast"}));
    let mut m = c.open(&store);
    let mut cur = rng.gen_range(1..=STRONG.len()); // the driver's guess of the current password (bias only)
    let mut formers: Vec<usize> = Vec::new();
    let mut pool: Vec<MasterSeed> = Vec::new();
    // sometimes a weak password is offered first
    if rng.gen_bool(0.2) {
        let w = STRONG.len() + rng.gen_range(1..=WEAK.len());
        if let Out::Val(r) = c.call("initialize", m.initialize(&pw(w))) {
            c.t.ev(json!({"ev":"Init","pw":w,"ok":r.is_ok()}));
            if r.is_ok() {
                cur = w;
            }
        }
    }
    if cur <= STRONG.len() {
        if let Out::Val(r) = c.call("initialize", m.initialize(&pw(cur))) {
            c.t.ev(json!({"ev":"Init","pw":cur,"ok":r.is_ok()}));
        }
    }
    let pick_pw = |rng: &mut dyn rand::RngCore, cur: usize, formers: &Vec<usize>| -> usize {
        match rng.gen_range(0..10) {
            0..=5 => cur,
            6 | 7 if !formers.is_empty() => formers[rng.gen_range(0..formers.len())],
            _ => rng.gen_range(1..=STRONG.len()),
        }
    };
    for _ in 0..ops {
        match rng.gen_range(0..100) {
            0..=21 => {
                let id = rng.gen_range(1..=3usize);
                let p = pick_pw(rng, cur, &formers);
                let seed = if !pool.is_empty() && rng.gen_bool(0.25) {
                    let i = rng.gen_range(0..pool.len());
                    MasterSeed::from_entropy(pool[i].seed_material()).unwrap_or_else(|_| new_seed(rng))
                } else {
                    new_seed(rng)
                };
                let st = c.seed_tok(seed.seed_material());
                if let Out::Val(r) = c.call("store_master_seed", m.store_master_seed(&format!("seed-{id}"), &seed, &pw(p))) {
                    c.t.ev(json!({"ev":"Store","id":id,"seed":st,"pw":p,"ok":r.is_ok()}));
                }
                pool.push(seed);
            }
            22..=61 => {
                let id = rng.gen_range(1..=4usize);
                let p = pick_pw(rng, cur, &formers);
                c.retrieve_ev(&m, id, p);
            }
            62..=69 => {
                let old = pick_pw(rng, cur, &formers);
                let new = match rng.gen_range(0..10) {
                    0 => STRONG.len() + rng.gen_range(1..=WEAK.len()),
                    1 => cur,
                    _ => rng.gen_range(1..=STRONG.len()),
                };
                if let Out::Val(r) = c.call("change_password", m.change_password(&pw(old), &pw(new))) {
                    c.t.ev(json!({"ev":"ChangePw","old":old,"new":new,"ok":r.is_ok()}));
                    if r.is_ok() {
                        formers.push(old);
                        cur = new;
                        formers.retain(|&x| x != new);
                    }
                }
            }
            70..=75 => {
                let r = common::catch(std::panic::AssertUnwindSafe(|| m.clear_cache()));
                match r {
                    Ok(Ok(())) => c.t.ev(json!({"ev":"ClearCache"})),
                    Ok(Err(e)) => eprintln!("c18: clear_cache: {e}"),
                    Err(p) => c.t.ev(json!({"ev":"Panic","where":"clear_cache","msg":p})),
                }
            }
            76..=81 => {
                m = c.open(&store);
                c.t.ev(json!({"ev":"Reopen"}));
            }
            82..=89 => {
                // alter one byte of the file for a while
                let Ok(orig) = std::fs::read(&store) else { continue };
                if orig.is_empty() {
                    continue;
                }
                let pos = rng.gen_range(0..orig.len());
                let mask: u8 = rng.gen_range(1..=255);
                let mut bad = orig.clone();
                bad[pos] ^= mask;
                if std::fs::write(&store, &bad).is_err() {
                    continue;
                }
                c.t.ev(json!({"ev":"Corrupt","kind":"xor","pos":pos,"mask":mask,"len":orig.len()}));
                for _ in 0..rng.gen_range(1..5) {
                    match rng.gen_range(0..6) {
                        0 => {
                            m = c.open(&store);
                            c.t.ev(json!({"ev":"Reopen"}));
                        }
                        1 => {
                            if m.clear_cache().is_ok() {
                                c.t.ev(json!({"ev":"ClearCache"}));
                            }
                        }
                        _ => {
                            let id = rng.gen_range(1..=3usize);
                            let p = pick_pw(rng, cur, &formers);
                            c.retrieve_ev(&m, id, p);
                        }
                    }
                }
                if std::fs::write(&store, &orig).is_err() {
                    eprintln!("c18: cannot restore store file");
                    std::process::exit(2);
                }
                c.t.ev(json!({"ev":"Restore"}));
            }
            _ => {
                // crash images of a writing operation
                let Ok(old_bytes) = std::fs::read(&store) else { continue };
                let scratch = dir.join("scratch");
                let _ = std::fs::remove_dir_all(&scratch);
                let _ = std::fs::create_dir_all(&scratch);
                let sstore = scratch.join("store.enc");
                if std::fs::write(&sstore, &old_bytes).is_err() {
                    continue;
                }
                let sm = c.open(&sstore);
                let op: Value;
                let mut guess_new = cur;
                // names created / deleted / renamed in the scratch directory while the update runs
                let watch = crate::fswatch::Watch::new(&scratch);
                // real crash images: the scratch directory is copied at every verif-hooks crash point of the update
                let hook_images: std::sync::Arc<std::sync::Mutex<Vec<(&'static str, PathBuf)>>> = Default::default();
                {
                    let hi = hook_images.clone();
                    let sc = scratch.clone();
                    let root2 = dir.clone();
                    saorsa_core::verif_hooks::set_crash_callback(Some(std::sync::Arc::new(move |name: &'static str| {
                        if !name.starts_with("keystore.") {
                            return;
                        }
                        let mut g = hi.lock().expect("hook images");
                        let dst = root2.join(format!("hook{}", g.len()));
                        let _ = std::fs::remove_dir_all(&dst);
                        let _ = std::fs::create_dir_all(&dst);
                        if let Ok(rd) = std::fs::read_dir(&sc) {
                            for e in rd.flatten() {
                                if e.path().is_file() {
                                    let _ = std::fs::copy(e.path(), dst.join(e.file_name()));
                                }
                            }
                        }
                        g.push((name, dst));
                    })));
                }
                if rng.gen_bool(0.6) {
                    let id = rng.gen_range(1..=3usize);
                    let p = pick_pw(rng, cur, &formers);
                    let seed = new_seed(rng);
                    let st = c.seed_tok(seed.seed_material());
                    match c.call("store_master_seed", sm.store_master_seed(&format!("seed-{id}"), &seed, &pw(p))) {
                        Out::Val(_) => {}
                        Out::Panic => continue,
                    }
                    op = json!({"kind":"Store","id":id,"seed":st,"pw":p});
                } else {
                    let old = pick_pw(rng, cur, &formers);
                    let new = rng.gen_range(1..=STRONG.len());
                    match c.call("change_password", sm.change_password(&pw(old), &pw(new))) {
                        Out::Val(r) => {
                            if r.is_ok() {
                                guess_new = new;
                            }
                        }
                        Out::Panic => continue,
                    }
                    op = json!({"kind":"ChangePw","old":old,"new":new});
                }
                drop(sm);
                saorsa_core::verif_hooks::set_crash_callback(None);
                if let Some(w) = &watch {
                    let evs: Vec<Value> = w.drain().into_iter().map(|(k, n)| json!([k, n])).collect();
                    c.t.ev(json!({"ev":"FsEvents","op":op,"store":"store.enc","events":evs}));
                }
                drop(watch);
                let hooks: Vec<(&'static str, PathBuf)> = hook_images.lock().expect("hook images").clone();
                for (point, hdir) in hooks {
                    let pr = probe(c, &hdir.join("store.enc"));
                    c.t.ev(json!({"ev":"CrashProbe","op":op,"point":point,"probe":pr,"adopt":false}));
                    let _ = std::fs::remove_dir_all(&hdir);
                }
                let Ok(new_bytes) = std::fs::read(&sstore) else { continue };
                let cut = if new_bytes.is_empty() { 0 } else { rng.gen_range(0..new_bytes.len()) };
                let images: [(&str, &[u8], Option<&[u8]>); 4] = [
                    ("tmp_created_empty", &old_bytes, Some(&new_bytes[..0])),
                    ("tmp_partially_written", &old_bytes, Some(&new_bytes[..cut])),
                    ("tmp_written_not_renamed", &old_bytes, Some(&new_bytes[..])),
                    ("renamed", &new_bytes, None),
                ];
                let adopt = if rng.gen_bool(0.7) { rng.gen_range(0..images.len()) } else { usize::MAX };
                for (i, (point, file, tmp)) in images.iter().enumerate() {
                    let idir = dir.join(format!("img{i}"));
                    let _ = std::fs::remove_dir_all(&idir);
                    let _ = std::fs::create_dir_all(&idir);
                    let istore = idir.join("store.enc");
                    if std::fs::write(&istore, file).is_err() {
                        continue;
                    }
                    if let Some(tb) = tmp {
                        let _ = std::fs::write(tmp_path(&istore), tb);
                    }
                    let pr = probe(c, &istore);
                    c.t.ev(json!({"ev":"CrashProbe","op":op,"point":point,"probe":pr,"adopt":i == adopt}));
                    if i == adopt {
                        // the history continues on this image with a new process
                        let _ = std::fs::write(&store, file);
                        match tmp {
                            Some(tb) => {
                                let _ = std::fs::write(tmp_path(&store), tb);
                            }
                            None => {
                                let _ = std::fs::remove_file(tmp_path(&store));
                            }
                        }
                        m = c.open(&store);
                        if *point == "renamed" && guess_new != cur {
                            formers.push(cur);
                            cur = guess_new;
                            formers.retain(|&x| x != guess_new);
                        }
                    }
                }
            }
        }
    }
}

/// Alteration sweep: every byte position of a store file holding two seeds.
fn sweep(c: &mut Ctx, rng: &mut impl Rng, root: &Path, masks_per_pos: u64, truncations: u64) {
    let dir = root.join("sweep");
    let _ = std::fs::create_dir_all(&dir);
    let store = dir.join("store.enc");
    c.t.ev(json!({"ev":"Reset","kind":"sweep","level":"Fast"}));
    let m = c.open(&store);
    let cur = 1usize;
    if let Out::Val(r) = c.call("initialize", m.initialize(&pw(cur))) {
        c.t.ev(json!({"ev":"Init","pw":cur,"ok":r.is_ok()}));
    }
    for id in 1..=2usize {
        let seed = new_seed(rng);
        let st = c.seed_tok(seed.seed_material());
        if let Out::Val(r) = c.call("store_master_seed", m.store_master_seed(&format!("seed-{id}"), &seed, &pw(cur))) {
            c.t.ev(json!({"ev":"Store","id":id,"seed":st,"pw":cur,"ok":r.is_ok()}));
        }
    }
    // seed 1 is replaced: the file on disk is the third generation, the superseded material of seed 1 must never come back
    {
        let seed = new_seed(rng);
        let st = c.seed_tok(seed.seed_material());
        if let Out::Val(r) = c.call("store_master_seed", m.store_master_seed("seed-1", &seed, &pw(cur))) {
            c.t.ev(json!({"ev":"Store","id":1,"seed":st,"pw":cur,"ok":r.is_ok()}));
        }
    }
    drop(m);
    let Ok(orig) = std::fs::read(&store) else {
        eprintln!("c18: sweep: no store file");
        std::process::exit(2)
    };
    let mut variants: Vec<(Value, Vec<u8>)> = Vec::new();
    for pos in 0..orig.len() {
        for k in 0..masks_per_pos {
            let mask: u8 = if masks_per_pos >= 8 && k < 8 { 1 << k } else { rng.gen_range(1..=255) };
            let mut bad = orig.clone();
            bad[pos] ^= mask;
            variants.push((json!({"ev":"Corrupt","kind":"xor","pos":pos,"mask":mask,"len":orig.len()}), bad));
        }
    }
    for _ in 0..truncations {
        let n = rng.gen_range(0..orig.len());
        variants.push((json!({"ev":"Corrupt","kind":"truncate","pos":n,"len":orig.len()}), orig[..n].to_vec()));
        let mut ext = orig.clone();
        ext.extend((0..rng.gen_range(1..40)).map(|_| rng.r#gen::<u8>()));
        variants.push((json!({"ev":"Corrupt","kind":"append","pos":ext.len(),"len":orig.len()}), ext));
    }
    for (ev, bytes) in variants {
        if std::fs::write(&store, &bytes).is_err() {
            continue;
        }
        c.t.ev(ev);
        for (id, p) in [(1usize, cur), (2, cur), (1, 2usize)] {
            let m = c.open(&store);
            c.t.ev(json!({"ev":"Reopen"}));
            c.retrieve_ev(&m, id, p);
        }
        c.t.ev(json!({"ev":"Restore"}));
    }
    let _ = std::fs::write(&store, &orig);
}

pub fn drive(a: &Args) -> i32 {
    let out = a.str("out", "/dev/stdout");
    let segments = a.num("segments", 20);
    let ops = a.num("ops", 60);
    let masks = a.num("masks", 1);
    let truncs = a.num("truncations", 40);
    common::quiet_panics();
    let root = match tempfile::tempdir() {
        Ok(d) => d,
        Err(e) => {
            eprintln!("c18: tempdir: {e}");
            return 2;
        }
    };
    let mut c = Ctx { t: Trace::create(&out), rt: common::rt(), seeds: HashMap::new() };
    let mut rng = common::rng(18);
    sweep(&mut c, &mut rng, root.path(), masks, truncs);
    for seg in 0..segments {
        history(&mut c, &mut rng, ops, root.path(), seg);
    }
    let n = c.t.finish();
    eprintln!("c18 drive: {n} events, {} seed tokens", c.seeds.len());
    0
}
