//! C09 driver: real ML-DSA keys and real PeerDHTRecords; field-level and byte-level mutations,
//! forged records sharing (uid, seq, ts) with a genuine one, random presentation histories to
//! SignatureCaches of capacity 1..8 (and a few larger), construction at every boundary of the
//! documented bounds. Every call is an event; the oracle is spec/Trace_PeerRecord.tla.
//!
//! Trusted base (no expected values here):
//!  * `Intern`: byte strings -> small integer tokens, equal tokens <=> equal bytes (endpoints are
//!    compared with their derived `PartialEq`, not through a serialisation);
//!  * a `Sign` event is written only when the record was signed with the secret half of the key
//!    that is embedded in the record at that moment (key pairs come from generate_ml_dsa_keypair);
//!  * `Key` events give UserId::from_public_key(pk), the library's own definition of the derived id.
use crate::common::{self, Args, Trace};
use rand::Rng;
use rand::seq::SliceRandom;
use saorsa_core::NetworkAddress;
use saorsa_core::peer_record::{EndpointId, NatType, PeerDHTRecord, PeerEndpoint, SignatureCache, UserId};
use saorsa_core::quantum_crypto::ant_quic_integration::{MlDsaPublicKey, MlDsaSecretKey, MlDsaSignature, generate_ml_dsa_keypair};
use serde_json::{Value, json};
use std::collections::HashMap;
use std::net::{IpAddr, Ipv4Addr, SocketAddr};

#[derive(Default)]
struct Intern {
    bytes: HashMap<(u8, Vec<u8>), i64>,
    eps: Vec<Vec<PeerEndpoint>>,
    next: i64,
}

impl Intern {
    fn tok(&mut self, kind: u8, b: &[u8]) -> i64 {
        if let Some(t) = self.bytes.get(&(kind, b.to_vec())) {
            return *t;
        }
        self.next += 1;
        self.bytes.insert((kind, b.to_vec()), self.next);
        self.next
    }
    fn eps_tok(&mut self, e: &[PeerEndpoint]) -> i64 {
        if let Some(i) = self.eps.iter().position(|x| x.as_slice() == e) {
            return 1_000_000 + i as i64;
        }
        self.eps.push(e.to_vec());
        1_000_000 + (self.eps.len() - 1) as i64
    }
    fn body(&mut self, r: &PeerDHTRecord) -> Value {
        let name: Vec<u8> = match &r.name {
            None => vec![0],
            Some(s) => {
                let mut v = vec![1];
                v.extend_from_slice(s.as_bytes());
                v
            }
        };
        json!({
            "ver": self.tok(0, &[r.version]),
            "uid": self.tok(1, &r.user_id.hash),
            "pk": self.tok(2, r.public_key.as_bytes()),
            "seq": self.tok(3, &r.sequence_number.to_be_bytes()),
            "name": self.tok(4, &name),
            "eps": self.eps_tok(&r.endpoints),
            "ts": self.tok(5, &r.timestamp.to_be_bytes()),
            "ttl": self.tok(6, &r.ttl.to_be_bytes()),
        })
    }
    fn sig(&mut self, r: &PeerDHTRecord) -> i64 {
        self.tok(7, r.signature.as_bytes())
    }
}

struct Owner {
    pk: MlDsaPublicKey,
    sk: MlDsaSecretKey,
    uid: UserId,
}

fn endpoint(rng: &mut impl Rng) -> PeerEndpoint {
    let ip = Ipv4Addr::new(rng.gen_range(1..224), rng.r#gen(), rng.r#gen(), rng.gen_range(1..255));
    let addr = NetworkAddress::new(SocketAddr::new(IpAddr::V4(ip), rng.gen_range(1024..65000)));
    let mut e = PeerEndpoint::new(
        EndpointId::from_uuid(uuid::Uuid::from_bytes(rng.r#gen())),
        addr,
        [NatType::NoNat, NatType::FullCone, NatType::Symmetric][rng.gen_range(0..3)],
        vec![format!("coord{}", rng.gen_range(0..5))],
        if rng.gen_bool(0.5) { Some("dev".to_string()) } else { None },
    );
    e.last_updated = 1_700_000_000 + rng.gen_range(0..1000);
    e
}

/// One field of a copy is really changed. Returns the field name (for the human reader only).
fn mutate(r: &mut PeerDHTRecord, owners: &[Owner], rng: &mut impl Rng) -> &'static str {
    loop {
        match rng.gen_range(0..22) {
            0 => {
                let o = &owners[rng.gen_range(0..owners.len())];
                if o.uid != r.user_id {
                    r.user_id = o.uid.clone();
                    return "uid:other-owner";
                }
            }
            1 => {
                let bit = rng.gen_range(0..256);
                r.user_id.hash[bit / 8] ^= 1 << (bit % 8);
                return "uid:bit";
            }
            2 => {
                let o = &owners[rng.gen_range(0..owners.len())];
                if o.pk.as_bytes() != r.public_key.as_bytes() {
                    r.public_key = o.pk.clone();
                    return "pk:other-owner";
                }
            }
            3 => {
                let bit = rng.gen_range(0..(1952 * 8));
                r.public_key.0[bit / 8] ^= 1 << (bit % 8);
                return "pk:bit";
            }
            4 => {
                r.sequence_number = r.sequence_number.wrapping_add(1);
                return "seq:+1";
            }
            5 => {
                r.sequence_number ^= 1u64 << rng.gen_range(0..64);
                return "seq:bit";
            }
            6 => match &r.name {
                // None <-> Some("") is not tried: "" is outside the documented bounds and the two readings differ
                None => {
                    r.name = Some("x".into());
                    return "name:some";
                }
                Some(_) => {
                    r.name = None;
                    return "name:none";
                }
            },
            7 => {
                if let Some(n) = &mut r.name {
                    n.push('!');
                    return "name:append";
                }
            }
            8 => {
                if let Some(n) = &r.name {
                    let up = n.to_uppercase();
                    if &up != n {
                        r.name = Some(up);
                        return "name:case";
                    }
                }
            }
            9 => {
                let e = &mut r.endpoints[0];
                let sa = e.external_address.socket_addr;
                e.external_address = NetworkAddress::new(SocketAddr::new(sa.ip(), sa.port() ^ 1));
                return "eps:port";
            }
            10 => {
                let e = &mut r.endpoints[0];
                if e.external_address.four_words.is_some() {
                    e.external_address.four_words = None;
                    return "eps:words-none";
                }
            }
            11 => {
                let e = &mut r.endpoints[0];
                e.nat_type = if e.nat_type == NatType::Unknown { NatType::NoNat } else { NatType::Unknown };
                return "eps:nat";
            }
            12 => {
                r.endpoints[0].coordinator_nodes.push("evil".into());
                return "eps:coordinator";
            }
            13 => {
                let e = &mut r.endpoints[0];
                e.device_info = if e.device_info.is_some() { None } else { Some("d".into()) };
                return "eps:device";
            }
            14 => {
                r.endpoints[0].last_updated += 1;
                return "eps:last_updated";
            }
            15 => {
                r.endpoints[0].endpoint_id = EndpointId::from_uuid(uuid::Uuid::from_bytes(rng.r#gen()));
                return "eps:endpoint_id";
            }
            16 => {
                let e = endpoint(rng);
                r.endpoints.push(e);
                return "eps:add";
            }
            17 => {
                if r.endpoints.len() >= 2 {
                    if rng.gen_bool(0.5) {
                        r.endpoints.pop();
                        return "eps:drop";
                    } else if r.endpoints[0] != r.endpoints[1] {
                        r.endpoints.swap(0, 1);
                        return "eps:swap";
                    }
                }
            }
            18 => {
                r.timestamp = r.timestamp.wrapping_add(1);
                return "ts:+1";
            }
            19 => {
                r.timestamp ^= 1u64 << rng.gen_range(0..40);
                return "ts:bit";
            }
            20 => {
                r.ttl = if r.ttl > 1 { r.ttl - 1 } else { r.ttl + 1 };
                return "ttl:-1";
            }
            _ => {
                r.ttl ^= 1u32 << rng.gen_range(0..16);
                return "ttl:bit";
            }
        }
    }
}

struct Item {
    rec: PeerDHTRecord,
    how: String,
    fam: usize,
}

fn sign_as(t: &mut Trace, it: &mut Intern, r: &mut PeerDHTRecord, o: &Owner) -> bool {
    match common::catch(std::panic::AssertUnwindSafe(|| r.sign(&o.sk))) {
        Ok(Ok(())) => {
            // signed by the owner of the embedded key <=> the embedded key is o's public key
            if r.public_key.as_bytes() == o.pk.as_bytes() {
                let b = it.body(r);
                let s = it.sig(r);
                t.ev(json!({"ev":"Sign","body":b,"sig":s}));
            }
            true
        }
        Ok(Err(e)) => {
            eprintln!("c09: sign failed: {e}");
            false
        }
        Err(p) => {
            t.ev(json!({"ev":"Panic","where":"PeerDHTRecord::sign","msg":p}));
            false
        }
    }
}

fn present(t: &mut Trace, it: &mut Intern, cache: &mut SignatureCache, item: &Item) {
    let r = &item.rec;
    let direct = common::catch(std::panic::AssertUnwindSafe(|| r.verify_signature().is_ok()));
    let cached = common::catch(std::panic::AssertUnwindSafe(|| cache.verify_cached(r).is_ok()));
    match (direct, cached) {
        (Ok(d), Ok(c)) => {
            let b = it.body(r);
            let s = it.sig(r);
            t.ev(json!({"ev":"Verify","body":b,"sig":s,"direct":d,"cached":c,"how":item.how,"fam":item.fam}));
        }
        (d, c) => {
            let w = if d.is_err() { "PeerDHTRecord::verify_signature" } else { "SignatureCache::verify_cached" };
            t.ev(json!({"ev":"Panic","where":w,"how":item.how,"msg":d.err().or(c.err())}));
        }
    }
}

fn bounds(t: &mut Trace, owners: &[Owner], rng: &mut impl Rng, random_extra: u64) {
    t.ev(json!({"ev":"Reset","cap":1,"kind":"bounds"}));
    let o = &owners[0];
    let eps_pool: Vec<PeerEndpoint> = (0..40).map(|_| endpoint(rng)).collect();
    let mut cases: Vec<(i64, usize, u32)> = Vec::new();
    let names: [i64; 10] = [-1, 0, 1, 2, 254, 255, 256, 257, 1000, 70000];
    let neps: [usize; 8] = [0, 1, 2, 15, 16, 17, 18, 40];
    let ttls: [u32; 9] = [0, 1, 2, 86_399, 86_400, 86_401, 86_402, 1 << 31, u32::MAX];
    for &n in &names {
        for &e in &neps {
            for &l in &ttls {
                cases.push((n, e, l));
            }
        }
    }
    for _ in 0..random_extra {
        cases.push((rng.gen_range(-1..600), rng.gen_range(0..40), if rng.gen_bool(0.5) { rng.gen_range(0..200_000) } else { rng.r#gen() }));
    }
    for (n, e, l) in cases {
        let name = if n < 0 { None } else { Some("n".repeat(n as usize)) };
        let eps = eps_pool[..e].to_vec();
        let r = common::catch(std::panic::AssertUnwindSafe(|| {
            PeerDHTRecord::new(o.uid.clone(), o.pk.clone(), 1, name, eps, l).is_ok()
        }));
        // TLC integers are 32-bit: lifetimes above 2^30 are logged as 2^30 (same side of every bound)
        let ttl_log = l.min(1 << 30);
        match r {
            Ok(ok) => t.ev(json!({"ev":"New","name_len":n,"eps":e,"ttl":ttl_log,"ok":ok})),
            Err(p) => t.ev(json!({"ev":"Panic","where":"PeerDHTRecord::new","msg":p})),
        }
    }
}

pub fn drive(a: &Args) -> i32 {
    let out = a.str("out", "/dev/stdout");
    let segments = a.num("segments", 40);
    let pres = a.num("presentations", 50) as usize;
    let mut t = Trace::create(&out);
    let mut rng = common::rng(9);
    common::quiet_panics();
    let owners: Vec<Owner> = (0..4)
        .map(|_| {
            let (pk, sk) = generate_ml_dsa_keypair().unwrap_or_else(|e| {
                eprintln!("keygen: {e}");
                std::process::exit(2)
            });
            let uid = UserId::from_public_key(&pk);
            Owner { pk, sk, uid }
        })
        .collect();
    let mut it = Intern::default();
    bounds(&mut t, &owners, &mut rng, a.num("bounds_random", 300));
    for seg in 0..segments {
        let cap: usize = match seg % 10 {
            8 => 16,
            9 => 64,
            k => (k as usize) + 1,
        };
        t.ev(json!({"ev":"Reset","cap":cap,"kind":"history"}));
        for o in &owners {
            let p = it.tok(2, o.pk.as_bytes());
            let u = it.tok(1, &o.uid.hash);
            t.ev(json!({"ev":"Key","pk":p,"uid":u}));
        }
        let mut cache = SignatureCache::new(cap);
        // ---- build the pool: 6 families of one genuine record and its altered / forged relatives
        let mut pool: Vec<Item> = Vec::new();
        let nfam = 6;
        for fam in 0..nfam {
            let oi = rng.gen_range(0..owners.len());
            let o = &owners[oi];
            let attacker = &owners[(oi + 1 + rng.gen_range(0..owners.len() - 1)) % owners.len()];
            let neps = rng.gen_range(1..=3);
            let name = if rng.gen_bool(0.8) { Some(format!("user-{}", rng.gen_range(0..1000))) } else { None };
            let mut g = match PeerDHTRecord::new(o.uid.clone(), o.pk.clone(), rng.gen_range(0..5), name, (0..neps).map(|_| endpoint(&mut rng)).collect(), rng.gen_range(1..=86_400)) {
                Ok(r) => r,
                Err(e) => {
                    eprintln!("c09: new: {e}");
                    return 2;
                }
            };
            g.timestamp = 1_750_000_000 + rng.gen_range(0..4);
            if !sign_as(&mut t, &mut it, &mut g, o) {
                return 2;
            }
            pool.push(Item { rec: g.clone(), how: "genuine".into(), fam });
            // field-level mutants, signature kept
            for _ in 0..5 {
                let mut m = g.clone();
                let how = mutate(&mut m, &owners, &mut rng);
                pool.push(Item { rec: m, how: format!("mut:{how}"), fam });
            }
            // signature: one bit flipped / all zero / taken from another genuine record
            let mut m = g.clone();
            let bit = rng.gen_range(0..(3309 * 8));
            m.signature.0[bit / 8] ^= 1 << (bit % 8);
            pool.push(Item { rec: m, how: "sig:bit".into(), fam });
            let mut m = g.clone();
            m.signature = MlDsaSignature(Box::new([0u8; 3309]));
            pool.push(Item { rec: m, how: "sig:zero".into(), fam });
            if let Some(other) = pool.iter().find(|x| x.how == "genuine" && x.fam != fam) {
                let mut m = g.clone();
                m.signature = other.rec.signature.clone();
                pool.push(Item { rec: m, how: "sig:transplant".into(), fam });
            }
            // the same owner signs a second, different record with the same (uid, seq, ts): genuine too
            let mut g2 = g.clone();
            let _ = mutate_keep_key(&mut g2, &mut rng);
            if !sign_as(&mut t, &mut it, &mut g2, o) {
                return 2;
            }
            pool.push(Item { rec: g2, how: "genuine:same-uid-seq-ts".into(), fam });
            // forged: content changed, embedded key replaced by the attacker's, re-signed by the
            // attacker; user id, sequence number and timestamp are the victim's
            let mut f = g.clone();
            let _ = mutate_keep_key(&mut f, &mut rng);
            f.public_key = attacker.pk.clone();
            if !sign_as(&mut t, &mut it, &mut f, attacker) {
                return 2;
            }
            pool.push(Item { rec: f, how: "forged:attacker-key-victim-uid".into(), fam });
            // forged: signed by the attacker, embedded key still the victim's
            let mut f = g.clone();
            let _ = mutate_keep_key(&mut f, &mut rng);
            if !sign_as(&mut t, &mut it, &mut f, attacker) {
                return 2;
            }
            pool.push(Item { rec: f, how: "forged:attacker-signed-victim-key".into(), fam });
            // the attacker's own honest record with the victim's seq/ts (must verify)
            let mut h = g.clone();
            h.user_id = attacker.uid.clone();
            h.public_key = attacker.pk.clone();
            if !sign_as(&mut t, &mut it, &mut h, attacker) {
                return 2;
            }
            pool.push(Item { rec: h, how: "genuine:other-owner".into(), fam });
        }
        // ---- random presentation history with locality (collisions inside a family are frequent)
        let mut fam = 0usize;
        for _ in 0..pres {
            if rng.gen_bool(0.4) {
                fam = rng.gen_range(0..nfam);
            }
            let cands: Vec<&Item> = pool.iter().filter(|x| x.fam == fam).collect();
            let item = if rng.gen_bool(0.35) {
                cands.iter().find(|x| x.how == "genuine").copied().unwrap_or(cands[0])
            } else {
                cands.choose(&mut rng).copied().unwrap_or(cands[0])
            };
            present(&mut t, &mut it, &mut cache, item);
            if rng.gen_bool(0.02) {
                cache.clear();
                t.ev(json!({"ev":"Clear"}));
            }
        }
    }
    let n = t.finish();
    eprintln!("c09 drive: {n} events, {} tokens", it.next + it.eps.len() as i64);
    0
}

/// Change name, endpoints or lifetime only (user id, key, sequence number, timestamp stay).
fn mutate_keep_key(r: &mut PeerDHTRecord, rng: &mut impl Rng) -> &'static str {
    match rng.gen_range(0..4) {
        0 => {
            r.name = Some(format!("forged-{}", rng.gen_range(0..1000)));
            "name"
        }
        1 => {
            r.endpoints = vec![endpoint(rng)];
            "eps"
        }
        2 => {
            r.endpoints.push(endpoint(rng));
            "eps:add"
        }
        _ => {
            r.ttl = if r.ttl > 1 { r.ttl - 1 } else { 2 };
            "ttl"
        }
    }
}
