//! Sybil detector driver (specification growth module Sybil): seeded random sequences of the public operations of a
//! real `SybilDetector` (record_join / record_leave, record_response, record_claimed_resources /
//! record_measured_bandwidth, run_analysis, clear_groups, cleanup_old_records) with every query
//! (the four detectors, get_suspected_groups, is_peer_suspected, sybil_risk_score, overall_risk_score, group_count)
//! evaluated before and after each operation.
//! Oracle: spec/Trace_Sybil.tla with the functions of spec/SybilRules.tla.
//!
//! The detector's maps are private: what is logged as `pre` / `post` is what the public queries show
//! (`observe`). The acceptor carries the rest of the state (join records below the threshold, profiles) itself,
//! from the logged operations. `run_analysis` sees the evidence in the hash order of the detector's maps; the
//! four `check_*` calls of the `pre` observation iterate the same unmodified maps, so their order IS the order
//! run_analysis works with.
//!
//! Time: the component reads `std::time::Instant`. The segments run in real time with windows of 20-40 ms and
//! record ages of 60-150 ms; many segments run concurrently (they mostly sleep), each on its own detector. Every
//! step logs the clock band `[t0, t1]` (microseconds since the segment's epoch, read from `Instant` immediately
//! before and after the call); the acceptor accepts any outcome that is right for SOME instant of the band.
//!
//! Segments 0-4 are fixed scripts (no randomness, no expected values): the operation sequences behind the
//! observations reported for this module. Trusted base (projections only): peer tokens are positions in the
//! segment's pool; the id prefix token is the big-endian value of the first four id bytes; the subnet key of an
//! evidence item is parsed back from its string (`a.b.c.0/24` -> [4,a,b,c], `x:y:z::/48` -> [6,x,y,z]); f64 are
//! logged as round(1e6 x) (confidence, scores), round(1e5 x) (similarity), round(1e3 x) (asymmetry ratio).
use crate::common::{self, Args, Trace};
use rand::Rng;
use saorsa_core::dht::{PeerId, SybilDetector, SybilDetectorConfig, SybilEvidence};
use serde_json::{Map, Value, json};
use std::net::{IpAddr, Ipv4Addr, Ipv6Addr};
use std::panic::AssertUnwindSafe;
use std::time::{Duration, Instant};

const NTOK: usize = 6;

struct Cfg {
    bthr: usize,
    win_ms: u64,
    pthr: usize,
    sim_pm: u32,
    asym_pm: u32,
    /// milliseconds; None = Duration::MAX
    age_ms: Option<u64>,
    minobs: usize,
}

impl Cfg {
    fn real(&self) -> SybilDetectorConfig {
        SybilDetectorConfig {
            subnet_burst_threshold: self.bthr,
            subnet_burst_window: Duration::from_millis(self.win_ms),
            id_prefix_threshold: self.pthr,
            behavioral_similarity_threshold: self.sim_pm as f64 / 1000.0,
            resource_asymmetry_threshold: self.asym_pm as f64 / 1000.0,
            max_record_age: self.age_ms.map(Duration::from_millis).unwrap_or(Duration::MAX),
            min_observations: self.minobs,
        }
    }
    fn json(&self) -> Value {
        json!({"bthr": self.bthr, "win": self.win_ms * 1000, "pthr": self.pthr, "sim": self.sim_pm, "asym": self.asym_pm,
               "age": self.age_ms.map(|a| (a * 1000) as i64).unwrap_or(-1), "minobs": self.minobs})
    }
}

struct Seg {
    d: SybilDetector,
    pool: Vec<PeerId>,
    epoch: Instant,
}

fn us(epoch: Instant, t: Instant) -> i64 {
    t.duration_since(epoch).as_micros().min(2_000_000_000) as i64
}

fn small(x: u64) -> i64 {
    x.min(2_000_000_000) as i64
}

fn ppm(x: f64) -> i64 {
    if x.is_nan() { -1 } else { (x * 1e6).round().clamp(-2e9, 2e9) as i64 }
}

fn tok(s: &Seg, p: &PeerId) -> usize {
    s.pool.iter().position(|q| q == p).map(|i| i + 1).unwrap_or(0)
}

fn toks_sorted(s: &Seg, ps: &mut dyn Iterator<Item = &PeerId>) -> Vec<usize> {
    let mut v: Vec<usize> = ps.map(|p| tok(s, p)).collect();
    v.sort();
    v.dedup();
    v
}

fn prefix_token(b: &[u8; 4]) -> i64 {
    u32::from_be_bytes(*b).min(2_000_000_000) as i64
}

/// `a.b.c.0/24` -> [4,a,b,c]; `x:y:z::/48` -> [6,x,y,z]; anything else -> [0].
fn subnet_key(s: &str) -> Value {
    if let Some(v4) = s.strip_suffix(".0/24") {
        let n: Vec<i64> = v4.split('.').filter_map(|x| x.parse::<i64>().ok()).collect();
        if n.len() == 3 {
            return json!([4, n[0], n[1], n[2]]);
        }
    }
    if let Some(v6) = s.strip_suffix("::/48") {
        let n: Vec<i64> = v6.split(':').filter_map(|x| i64::from_str_radix(x, 16).ok()).collect();
        if n.len() == 3 {
            return json!([6, n[0], n[1], n[2]]);
        }
    }
    json!([0])
}

fn ip_json(ip: &Option<IpAddr>) -> Value {
    match ip {
        None => json!([]),
        Some(IpAddr::V4(a)) => {
            let o = a.octets();
            json!([4, o[0], o[1], o[2], o[3]])
        }
        Some(IpAddr::V6(a)) => {
            let mut v = vec![6i64];
            v.extend(a.segments().iter().map(|x| *x as i64));
            json!(v)
        }
    }
}

fn item(s: &Seg, e: &SybilEvidence) -> Value {
    match e {
        SybilEvidence::SubnetBurst { subnet_prefix, peers, .. } => json!({"k":"burst","key":subnet_key(subnet_prefix),"ps":toks_sorted(s, &mut peers.iter())}),
        SybilEvidence::IdPrefixClustering { prefix, peers } => json!({"k":"prefix","key":[prefix_token(prefix)],"ps":toks_sorted(s, &mut peers.iter())}),
        SybilEvidence::BehavioralClustering { peers, .. } => json!({"k":"behav","key":[],"ps":toks_sorted(s, &mut peers.iter())}),
        SybilEvidence::ResourceAsymmetry { peer, .. } => json!({"k":"asym","key":[],"ps":[tok(s, peer)]}),
    }
}

/// Everything the public queries show, in the order the detector produces it.
fn observe(s: &Seg) -> Value {
    let mut bursts = Vec::new();
    for e in s.d.check_subnet_bursts() {
        if let SybilEvidence::SubnetBurst { subnet_prefix, peers, window } = &e {
            let seq: Vec<usize> = peers.iter().map(|p| tok(s, p)).collect();
            bursts.push(json!({"key":subnet_key(subnet_prefix),"peers":seq,"win":small(window.as_micros() as u64)}));
        } else {
            bursts.push(json!({"key":[0],"peers":[],"win":-1}));
        }
    }
    let mut prefix = Vec::new();
    for e in s.d.check_id_prefix_clustering() {
        if let SybilEvidence::IdPrefixClustering { prefix: p, peers } = &e {
            prefix.push(json!({"pf":prefix_token(p),"peers":toks_sorted(s, &mut peers.iter()),"n":peers.len()}));
        } else {
            prefix.push(json!({"pf":-1,"peers":[],"n":-1}));
        }
    }
    let mut behav = Vec::new();
    for e in s.d.check_behavioral_clustering() {
        if let SybilEvidence::BehavioralClustering { peers, similarity, .. } = &e {
            behav.push(json!({"ps":toks_sorted(s, &mut peers.iter()),"n":peers.len(),
                              "sim":if similarity.is_nan() { -1 } else { (similarity * 1e5).round() as i64 }}));
        } else {
            behav.push(json!({"ps":[],"n":-1,"sim":-1}));
        }
    }
    let mut asym = Vec::new();
    for e in s.d.check_resource_asymmetry() {
        if let SybilEvidence::ResourceAsymmetry { peer, claimed, measured, ratio } = &e {
            asym.push(json!({"p":tok(s, peer),"claimed":small(*claimed),"measured":small(*measured),"ratio":(ratio * 1e3).round().min(2e9) as i64}));
        } else {
            asym.push(json!({"p":0,"claimed":-1,"measured":-1,"ratio":-1}));
        }
    }
    let groups: Vec<Value> = s
        .d
        .get_suspected_groups()
        .iter()
        .map(|g| {
            let ev: Vec<Value> = g.evidence.iter().map(|e| item(s, e)).collect();
            json!({"m":toks_sorted(s, &mut g.members.iter()),"n":g.members.len(),"conf":ppm(g.confidence),"ev":ev,
                   "has":s.pool.iter().map(|p| g.contains(p)).collect::<Vec<bool>>()})
        })
        .collect();
    json!({"bursts":bursts,"prefix":prefix,"behav":behav,"asym":asym,"groups":groups,"gcount":s.d.group_count(),
           "overall":ppm(s.d.overall_risk_score()),
           "susp":s.pool.iter().map(|p| s.d.is_peer_suspected(p)).collect::<Vec<bool>>(),
           "risk":s.pool.iter().map(|p| ppm(s.d.sybil_risk_score(p))).collect::<Vec<i64>>()})
}

#[derive(Clone, Debug)]
enum Op {
    Sleep(u64),
    Join(usize, Option<IpAddr>),
    Leave(usize),
    /// latency in microseconds, response size
    Respond(usize, u64, usize),
    Claim(usize, u64, u64),
    Measure(usize, u64),
    Analyze,
    Clear,
    Cleanup,
}

/// One operation on the real detector, bracketed by two clock reads. No expected values.
fn apply(s: &mut Seg, op: &Op) -> Map<String, Value> {
    let mut e = Map::new();
    let mut put = |k: &str, v: Value| {
        e.insert(k.to_string(), v);
    };
    let t0 = Instant::now();
    let t1;
    match op {
        Op::Sleep(_) => unreachable!(),
        Op::Join(i, ip) => {
            let id = s.pool[*i].clone();
            let t0 = Instant::now();
            s.d.record_join(id, *ip);
            t1 = Instant::now();
            put("op", json!("Join"));
            put("p", json!(i + 1));
            put("ip", ip_json(ip));
            put("t0", json!(us(s.epoch, t0)));
        }
        Op::Leave(i) => {
            s.d.record_leave(&s.pool[*i]);
            t1 = Instant::now();
            put("op", json!("Leave"));
            put("p", json!(i + 1));
        }
        Op::Respond(i, lat, size) => {
            s.d.record_response(&s.pool[*i], Duration::from_micros(*lat), *size);
            t1 = Instant::now();
            put("op", json!("Respond"));
            put("p", json!(i + 1));
            put("lat", json!(small(*lat)));
            put("size", json!(small(*size as u64)));
        }
        Op::Claim(i, bw, st) => {
            s.d.record_claimed_resources(&s.pool[*i], *bw, *st);
            t1 = Instant::now();
            put("op", json!("Claim"));
            put("p", json!(i + 1));
            put("bw", json!(small(*bw)));
        }
        Op::Measure(i, bw) => {
            s.d.record_measured_bandwidth(&s.pool[*i], *bw);
            t1 = Instant::now();
            put("op", json!("Measure"));
            put("p", json!(i + 1));
            put("bw", json!(small(*bw)));
        }
        Op::Analyze => {
            s.d.run_analysis();
            t1 = Instant::now();
            put("op", json!("Analyze"));
        }
        Op::Clear => {
            s.d.clear_groups();
            t1 = Instant::now();
            put("op", json!("Clear"));
        }
        Op::Cleanup => {
            let t0 = Instant::now();
            let r = common::catch(AssertUnwindSafe(|| s.d.cleanup_old_records()));
            t1 = Instant::now();
            put("op", json!("Cleanup"));
            put("panic", json!(r.is_err()));
            put("t0", json!(us(s.epoch, t0)));
            if let Err(m) = r {
                put("msg", json!(m));
            }
        }
    }
    if !e.contains_key("t0") {
        e.insert("t0".to_string(), json!(us(s.epoch, t0)));
    }
    e.insert("t1".to_string(), json!(us(s.epoch, t1)));
    e
}

fn step(s: &mut Seg, op: &Op, out: &mut Vec<Value>) -> bool {
    if let Op::Sleep(ms) = op {
        std::thread::sleep(Duration::from_millis(*ms));
        return true;
    }
    let pre = match common::catch(AssertUnwindSafe(|| observe(s))) {
        Ok(v) => v,
        Err(msg) => {
            out.push(json!({"ev":"Panic","op":"observe","msg":msg}));
            return false;
        }
    };
    match common::catch(AssertUnwindSafe(|| apply(s, op))) {
        Ok(mut e) => {
            e.insert("ev".to_string(), json!("Step"));
            e.insert("pre".to_string(), pre);
            match common::catch(AssertUnwindSafe(|| observe(s))) {
                Ok(v) => {
                    e.insert("post".to_string(), v);
                }
                Err(msg) => {
                    out.push(json!({"ev":"Panic","op":"observe","msg":msg}));
                    return false;
                }
            }
            out.push(Value::Object(e));
            true
        }
        Err(msg) => {
            out.push(json!({"ev":"Panic","op":format!("{op:?}"),"msg":msg}));
            false
        }
    }
}

/// A peer id with the given first five bytes, the rest from `fill`.
fn make_id(head: [u8; 5], fill: &[u8; 32]) -> PeerId {
    let mut b = *fill;
    b[..5].copy_from_slice(&head);
    PeerId::from_bytes(b)
}

fn open(seg: u64, cfg: &Cfg, heads: &[[u8; 5]], rng: &mut impl Rng, out: &mut Vec<Value>) -> Seg {
    let pool: Vec<PeerId> = heads
        .iter()
        .map(|h| {
            let mut fill = [0u8; 32];
            rng.fill(&mut fill);
            make_id(*h, &fill)
        })
        .collect();
    let s = Seg { d: SybilDetector::new(cfg.real()), pool, epoch: Instant::now() };
    let pj: Vec<Value> = s.pool.iter().enumerate().map(|(i, p)| json!([i + 1, prefix_token(&[p.0[0], p.0[1], p.0[2], p.0[3]])])).collect();
    out.push(json!({"ev":"Reset","seg":seg,"cfg":cfg.json(),"pool":pj,"init":observe(&s)}));
    s
}

fn v4(a: u8, b: u8, c: u8, d: u8) -> Option<IpAddr> {
    Some(IpAddr::V4(Ipv4Addr::new(a, b, c, d)))
}

fn v6(s: [u16; 8]) -> Option<IpAddr> {
    Some(IpAddr::V6(Ipv6Addr::new(s[0], s[1], s[2], s[3], s[4], s[5], s[6], s[7])))
}

const HEADS: [[u8; 5]; 6] = [[0, 1, 2, 3, 1], [0, 1, 2, 3, 2], [0, 1, 2, 4, 1], [0, 1, 2, 4, 2], [0, 1, 2, 3, 3], [0, 1, 3, 3, 1]];

fn run(s: &mut Seg, ops: &[Op], out: &mut Vec<Value>) -> bool {
    for op in ops {
        if !step(s, op, out) {
            return false;
        }
    }
    true
}

/// Script 0: one peer joining twice is a burst; a departed peer is still named; the burst outlives its window; every
/// run_analysis appends the same evidence again; cleanup forgets the join records only.
fn script_a(seg: u64, rng: &mut impl Rng) -> Vec<Value> {
    let mut out = Vec::new();
    let cfg = Cfg { bthr: 2, win_ms: 30, pthr: 5, sim_pm: 950, asym_pm: 3000, age_ms: Some(120), minobs: 1 };
    let mut s = open(seg, &cfg, &HEADS, rng, &mut out);
    let a = v4(10, 0, 0, 7);
    let ops = [
        Op::Join(0, a), Op::Join(0, v4(10, 0, 0, 8)), Op::Analyze, Op::Join(1, v4(10, 0, 0, 9)), Op::Analyze, Op::Leave(0), Op::Analyze,
        Op::Sleep(70), Op::Analyze, Op::Analyze, Op::Analyze, Op::Analyze, Op::Join(2, v4(10, 0, 1, 9)), Op::Sleep(70), Op::Cleanup, Op::Analyze,
        Op::Join(3, a), Op::Clear, Op::Analyze, Op::Leave(5), Op::Respond(5, 10, 10),
    ];
    run(&mut s, &ops, &mut out);
    out
}

/// Script 1: evidence that connects two groups; departed members in the overall score.
fn script_b(seg: u64, rng: &mut impl Rng) -> Vec<Value> {
    let mut out = Vec::new();
    let cfg = Cfg { bthr: 9, win_ms: 30, pthr: 2, sim_pm: 900, asym_pm: 2000, age_ms: Some(120), minobs: 1 };
    let mut s = open(seg, &cfg, &[HEADS[0], HEADS[1], HEADS[2], HEADS[3], HEADS[5], HEADS[5]], rng, &mut out);
    let ops = [
        Op::Join(0, None), Op::Join(1, None), Op::Join(2, None), Op::Join(3, None), Op::Join(4, None), Op::Analyze,
        Op::Respond(1, 8, 16), Op::Respond(2, 8, 16), Op::Analyze, Op::Analyze, Op::Leave(0), Op::Leave(1), Op::Leave(2), Op::Leave(3),
        Op::Analyze, Op::Claim(4, 9, 1), Op::Measure(4, 2), Op::Analyze, Op::Claim(1, 9, 1), Op::Measure(1, 2), Op::Analyze, Op::Clear, Op::Analyze,
    ];
    run(&mut s, &ops, &mut out);
    out
}

/// Script 2: zero averages; the history of 100 responses.
fn script_c(seg: u64, rng: &mut impl Rng) -> Vec<Value> {
    let mut out = Vec::new();
    let cfg = Cfg { bthr: 9, win_ms: 30, pthr: 9, sim_pm: 750, asym_pm: 1000, age_ms: Some(120), minobs: 2 };
    let mut s = open(seg, &cfg, &HEADS, rng, &mut out);
    let mut ops = vec![Op::Join(0, None), Op::Join(1, None), Op::Join(2, None), Op::Join(3, None)];
    for _ in 0..2 {
        ops.extend([Op::Respond(0, 0, 0), Op::Respond(1, 0, 0), Op::Respond(2, 7, 0), Op::Respond(3, 7, 0)]);
    }
    ops.push(Op::Analyze);
    for i in 0..104u64 {
        ops.push(Op::Respond(0, if i < 6 { 40 } else { 4 }, if i < 6 { 40 } else { 2 }));
    }
    ops.extend([Op::Respond(1, 4, 2), Op::Respond(1, 8, 4), Op::Analyze, Op::Claim(0, 5, 0), Op::Measure(0, 0), Op::Measure(0, 5), Op::Measure(0, 4), Op::Analyze]);
    run(&mut s, &ops, &mut out);
    out
}

/// Script 3: max_record_age = Duration::MAX.
fn script_d(seg: u64, rng: &mut impl Rng) -> Vec<Value> {
    let mut out = Vec::new();
    let cfg = Cfg { bthr: 1, win_ms: 20, pthr: 1, sim_pm: 500, asym_pm: 1500, age_ms: None, minobs: 0 };
    let mut s = open(seg, &cfg, &HEADS, rng, &mut out);
    let m = v6([0, 0, 0, 0, 0, 0xffff, 0x0a00, 0x0005]);
    let ops = [Op::Join(0, m), Op::Join(1, v6([0, 0, 0, 0, 0, 0xffff, 0xc0a8, 0x0909])), Op::Cleanup, Op::Analyze, Op::Cleanup, Op::Leave(0), Op::Analyze];
    run(&mut s, &ops, &mut out);
    out
}

fn random_segment(seg: u64, ops: u64, rng: &mut impl Rng) -> Vec<Value> {
    let mut out = Vec::new();
    let flavor = rng.gen_range(0..3u32); // 0: joins and time, 1: behaviour, 2: mixed
    let cfg = Cfg {
        bthr: [1usize, 2, 2, 3, 3, 4][rng.gen_range(0..6)],
        win_ms: [20u64, 40][rng.gen_range(0..2)],
        pthr: [1usize, 2, 2, 3, 3, 4][rng.gen_range(0..6)],
        sim_pm: [0u32, 0, 500, 750, 875, 900, 950, 1000][rng.gen_range(0..8)],
        asym_pm: [0u32, 1000, 1500, 2000, 3000][rng.gen_range(0..5)],
        age_ms: if rng.gen_range(0..16) == 0 { None } else { Some([60u64, 100, 150][rng.gen_range(0..3)]) },
        minobs: [0usize, 1, 1, 2, 2, 3][rng.gen_range(0..6)],
    };
    let heads: Vec<[u8; 5]> = (0..NTOK).map(|_| HEADS[rng.gen_range(0..HEADS.len())]).collect();
    let mut s = open(seg, &cfg, &heads, rng, &mut out);
    // a few subnets with several addresses each; two IPv4-mapped addresses
    let ips: Vec<Option<IpAddr>> = vec![
        v4(10, 0, 0, rng.gen_range(1..250)), v4(10, 0, 0, rng.gen_range(1..250)), v4(10, 0, 0, rng.gen_range(1..250)),
        v4(10, 0, 1, rng.gen_range(1..250)), v4(10, 0, 1, rng.gen_range(1..250)), v4(10, 1, 0, 7),
        v6([0x2001, 0xdb8, 1, 0xa, 0, 0, 0, 1]), v6([0x2001, 0xdb8, 1, 0xb, 0, 0, 0, 2]), v6([0x2001, 0xdb8, 2, 0xa, 0, 0, 0, 1]),
        v6([0, 0, 0, 0, 0, 0xffff, 0x0a00, 0x0005]), v6([0, 0, 0, 0, 0, 0xffff, 0xc0a8, 0x0101]),
    ];
    let hot = [rng.gen_range(0..NTOK), rng.gen_range(0..NTOK), rng.gen_range(0..NTOK)];
    let vals = [2u64, 3, 4, 4, 0, 1, 6, 8, 12, 20, 40];
    if flavor != 0 {
        for h in hot.iter() {
            if rng.gen_bool(0.7) {
                step(&mut s, &Op::Join(*h, None), &mut out);
            }
        }
    }
    // when the driver last called record_join with each address (its own actions, used to aim at the edges of the windows)
    let mut last_join: Vec<Option<Instant>> = vec![None; ips.len()];
    for _ in 0..ops {
        let pause = match flavor {
            0 => rng.gen_range(0..100u32) < 45,
            1 => rng.gen_range(0..100u32) < 5,
            _ => rng.gen_range(0..100u32) < 25,
        };
        if pause {
            step(&mut s, &Op::Sleep([3u64, 8, 15, 22, 35, 50, 70, 110][rng.gen_range(0..8)]), &mut out);
        }
        let p = if rng.gen_range(0..4) == 0 { rng.gen_range(0..NTOK) } else { hot[rng.gen_range(0..3)] };
        let any = rng.gen_range(0..NTOK);
        let r = rng.gen_range(0..100u32);
        let ipi = if rng.gen_bool(0.6) { rng.gen_range(0..5) } else { rng.gen_range(0..ips.len()) };
        let with_ip = rng.gen_range(0..5) != 0;
        let join = Op::Join(any, if with_ip { ips[ipi] } else { None });
        let (nl, nz) = (if rng.gen_bool(0.7) { 4 } else { vals.len() }, if rng.gen_bool(0.7) { 4 } else { vals.len() });
        let respond = Op::Respond(p, vals[rng.gen_range(0..nl)], vals[rng.gen_range(0..nz)] as usize);
        let op = match flavor {
            0 => match r {
                0..=49 => join,
                50..=61 => Op::Leave(any),
                62..=79 => Op::Analyze,
                80..=84 => Op::Clear,
                85..=94 => Op::Cleanup,
                _ => respond,
            },
            1 => match r {
                0..=17 => join,
                18..=22 => Op::Leave(any),
                23..=64 => respond,
                65..=72 => Op::Claim(p, vals[rng.gen_range(0..vals.len())], rng.gen_range(0..9)),
                73..=80 => Op::Measure(p, vals[rng.gen_range(0..vals.len())]),
                81..=94 => Op::Analyze,
                95..=97 => Op::Clear,
                _ => Op::Cleanup,
            },
            _ => match r {
                0..=29 => join,
                30..=37 => Op::Leave(any),
                38..=59 => respond,
                60..=65 => Op::Claim(p, vals[rng.gen_range(0..vals.len())], rng.gen_range(0..9)),
                66..=71 => Op::Measure(p, vals[rng.gen_range(0..vals.len())]),
                72..=87 => Op::Analyze,
                88..=91 => Op::Clear,
                _ => Op::Cleanup,
            },
        };
        // aim at the instant an earlier join leaves the burst window (next: a join from that address) or reaches the record age
        // (next: cleanup): the call lands on or around the edge
        let aim = match &op {
            Op::Join(_, Some(_)) if rng.gen_range(0..4) == 0 => last_join[ipi].map(|t| t + Duration::from_millis(cfg.win_ms)),
            Op::Cleanup if rng.gen_range(0..2) == 0 => {
                let k = rng.gen_range(0..ips.len());
                last_join[k].and_then(|t| cfg.age_ms.map(|a| t + Duration::from_millis(a)))
            }
            _ => None,
        };
        if let Some(edge) = aim {
            let lead = Duration::from_micros([0u64, 20, 60, 150, 400][rng.gen_range(0..5)]);
            let now = Instant::now();
            if edge > now + lead && edge - now < Duration::from_millis(160) {
                std::thread::sleep(edge - now - lead);
            }
        }
        let joined = matches!(&op, Op::Join(_, Some(_)));
        if !step(&mut s, &op, &mut out) {
            break;
        }
        if joined {
            last_join[ipi] = Some(Instant::now());
        }
    }
    out
}

fn cfg_default_json(c: &SybilDetectorConfig) -> Value {
    json!({"bthr": c.subnet_burst_threshold, "win_s": small(c.subnet_burst_window.as_secs()), "pthr": c.id_prefix_threshold,
           "sim": (c.behavioral_similarity_threshold * 1000.0).round() as i64, "asym": (c.resource_asymmetry_threshold * 1000.0).round() as i64,
           "age_s": small(c.max_record_age.as_secs()), "minobs": c.min_observations})
}

/// Script 4: `with_defaults()`: ten joins from one /24, five peers with one id prefix.
fn script_e(seg: u64, rng: &mut impl Rng) -> Vec<Value> {
    let mut out = Vec::new();
    let pool: Vec<PeerId> = [HEADS[0], HEADS[1], HEADS[4], HEADS[0], HEADS[1], HEADS[2]]
        .iter()
        .map(|h| {
            let mut fill = [0u8; 32];
            rng.fill(&mut fill);
            make_id(*h, &fill)
        })
        .collect();
    let mut s = Seg { d: SybilDetector::with_defaults(), pool, epoch: Instant::now() };
    let pj: Vec<Value> = s.pool.iter().enumerate().map(|(i, p)| json!([i + 1, prefix_token(&[p.0[0], p.0[1], p.0[2], p.0[3]])])).collect();
    let d = SybilDetectorConfig::default();
    // the windows of the default configuration (an hour, a day) are "longer than the segment": 2000 s in the acceptor's microseconds
    out.push(json!({"ev":"Reset","seg":seg,"pool":pj,"init":observe(&s),
                    "cfg":{"bthr": d.subnet_burst_threshold, "win": 2_000_000_000i64, "pthr": d.id_prefix_threshold,
                           "sim": (d.behavioral_similarity_threshold * 1000.0).round() as i64, "asym": (d.resource_asymmetry_threshold * 1000.0).round() as i64,
                           "age": 2_000_000_000i64, "minobs": d.min_observations}}));
    out.push(json!({"ev":"Step","op":"Default","cfg":cfg_default_json(&d)}));
    let mut ops = Vec::new();
    for i in 0..11u8 {
        ops.push(Op::Join((i % 5) as usize, v4(172, 16, 5, 10 + i)));
        if i == 3 || i >= 8 {
            ops.push(Op::Analyze);
        }
    }
    for i in 0..5usize {
        for _ in 0..10 {
            ops.push(Op::Respond(i, if i < 2 { 20 } else { 20 + 3 * i as u64 }, 30));
        }
    }
    ops.extend([Op::Respond(0, 20, 30), Op::Analyze, Op::Claim(0, 31, 1), Op::Measure(0, 10), Op::Claim(1, 30, 1), Op::Measure(1, 10), Op::Analyze, Op::Cleanup]);
    run(&mut s, &ops, &mut out);
    out
}

/// `BehaviorProfile` on its own: responses, votes, claimed and measured resources; the averages and the asymmetry it reports.
fn pure_segment(seg: u64, ops: u64, rng: &mut impl Rng) -> Vec<Value> {
    use saorsa_core::dht::BehaviorProfile;
    let mut out = vec![json!({"ev":"Reset","seg":seg,"cfg":Cfg { bthr: 1, win_ms: 0, pthr: 1, sim_pm: 0, asym_pm: 0, age_ms: Some(0), minobs: 0 }.json(),
                               "pool":[],"init":{"asym":[],"behav":[],"bursts":[],"gcount":0,"groups":[],"overall":0,"prefix":[],"risk":[],"susp":[]}})];
    let d = SybilDetectorConfig::default();
    out.push(json!({"ev":"Step","op":"Default","cfg":cfg_default_json(&d)}));
    for _ in 0..ops {
        let r = common::catch(AssertUnwindSafe(|| -> Value {
            let mut pr = if rng.gen_bool(0.5) { BehaviorProfile::new() } else { BehaviorProfile::default() };
            let n = [0usize, 1, 2, 3, 5, 9, 99, 100, 101, 117][rng.gen_range(0..10)];
            let nv = [0usize, 1, 7, 100, 104][rng.gen_range(0..5)];
            let (mut lats, mut sizes) = (Vec::new(), Vec::new());
            for _ in 0..n {
                let (l, z) = (rng.gen_range(0..60u64), rng.gen_range(0..60usize));
                pr.record_response(Duration::from_micros(l), z);
                lats.push(l);
                sizes.push(z);
            }
            for i in 0..nv {
                pr.record_vote(i as u64);
            }
            let claimed = if rng.gen_bool(0.7) { rng.gen_range(0..50i64) } else { -1 };
            let measured = if rng.gen_bool(0.7) { [0i64, 0, 1, 2, 3, 7, 20][rng.gen_range(0..7)] } else { -1 };
            if claimed >= 0 {
                pr.set_claimed_resources(claimed as u64, rng.gen_range(0..9));
            }
            if measured >= 0 {
                pr.set_measured_bandwidth(measured as u64);
            }
            json!({"ev":"Step","op":"Profile","lats":lats,"sizes":sizes,"nv":nv,"claimed":claimed,"measured":measured,
                   "avg_lat":pr.average_latency().map(|d| small(d.as_micros() as u64)).unwrap_or(-1),
                   "avg_size":pr.average_response_size().map(|x| small(x as u64)).unwrap_or(-1),
                   "asym":pr.resource_asymmetry().map(|x| (x * 1e3).round().min(2e9) as i64).unwrap_or(-1),
                   "obs":pr.observation_count,"nlat":pr.latencies.len(),"nsize":pr.response_sizes.len(),"nvotes":pr.vote_hashes.len(),
                   "first_vote":pr.vote_hashes.front().map(|x| small(*x)).unwrap_or(-1),
                   "has_claim":pr.claimed_bandwidth.is_some(),"has_storage":pr.claimed_storage.is_some(),"has_measured":pr.measured_bandwidth.is_some()})
        }));
        match r {
            Ok(v) => out.push(v),
            Err(msg) => {
                out.push(json!({"ev":"Panic","op":"pure","msg":msg}));
                break;
            }
        }
    }
    out
}

pub fn drive(a: &Args) -> i32 {
    let out = a.str("out", "/dev/stdout");
    let segments = a.num("segments", 96);
    let ops = a.num("ops", 28);
    let par = a.num("par", 32).max(1) as usize;
    let mut t = Trace::create(&out);
    common::quiet_panics();
    let mut panics = 0u64;
    let segs: Vec<u64> = (0..segments).collect();
    for batch in segs.chunks(par) {
        // the segments of a batch run concurrently: they spend much of their time sleeping
        let results: Vec<Vec<Value>> = std::thread::scope(|sc| {
            let hs: Vec<_> = batch
                .iter()
                .map(|&seg| {
                    sc.spawn(move || {
                        let mut rng = common::rng(7000 + seg);
                        match seg {
                            0 => script_a(seg, &mut rng),
                            1 => script_b(seg, &mut rng),
                            2 => script_c(seg, &mut rng),
                            3 => script_d(seg, &mut rng),
                            4 => script_e(seg, &mut rng),
                            _ if seg % 16 == 15 => pure_segment(seg, ops, &mut rng),
                            _ => random_segment(seg, ops, &mut rng),
                        }
                    })
                })
                .collect();
            hs.into_iter().map(|h| h.join().unwrap_or_else(|e| std::panic::resume_unwind(e))).collect()
        });
        for evs in results {
            for e in evs {
                if e.get("ev").and_then(|x| x.as_str()) == Some("Panic") {
                    panics += 1;
                }
                t.ev(e);
            }
        }
    }
    let n = t.finish();
    eprintln!("sybil drive: {n} events, {panics} panics");
    0
}
