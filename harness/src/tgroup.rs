//! Threshold group membership / role management driver (specification growth): seeded random sequences of
//! every public method of `saorsa_core::threshold::ThresholdGroup` (src/threshold/group.rs) on real objects,
//! plus `ThresholdGroupManager::create_group` as the one constructor. A segment starts from a group written
//! as a struct literal (all fields are public): mostly well-formed (n = number of members, a leader, threshold
//! within the active members), sometimes deliberately not (threshold 0 or above n, n unrelated to the list,
//! duplicate ids, no leader, a long audit log). Before and after every call the group is projected: n,
//! threshold, version, the members and the pending list as (id, role with the permission flags that are
//! true, status), the audit log as (length, successes, failures) - the full token list is logged once per
//! segment, the acceptor carries it -, parent token and name. Every step also carries what the parameterless
//! queries answer for the state after the call (get_active_participants, active_participant_count,
//! has_threshold_participants, get_stats, get_hierarchy, validate); check_permission and
//! get_participants_by_role are steps of their own. No expected values here. Oracle: spec/Trace_TGroup.tla.
use crate::common::{self, Args, Trace};
use rand::Rng;
use saorsa_core::quantum_crypto::{CryptoCapabilities, FrostCommitment, FrostGroupPublicKey, GroupId, ParticipantId, PeerId, QuantumPeerIdentity};
use saorsa_core::threshold::{
    GroupAuditEntry, GroupConfig, GroupMetadata, GroupOperation, GroupPurpose, LeaderPermissions, MemberPermissions, OperationResult,
    ParticipantInfo, ParticipantRole, ParticipantStatus, Permission, RoleFilter, ThresholdError, ThresholdGroup, ThresholdGroupManager,
};
use serde_json::{Value, json};
use std::collections::HashMap;
use std::panic::AssertUnwindSafe;
use std::time::{Duration, SystemTime};

const LF: [&str; 6] = ["add", "remove", "threshold", "refresh", "assign", "subgroup"];
const MF: [&str; 3] = ["sign", "propose", "vote"];
const PERMS: [Permission; 7] = [
    Permission::AddParticipant,
    Permission::RemoveParticipant,
    Permission::UpdateThreshold,
    Permission::Sign,
    Permission::Vote,
    Permission::CreateSubgroup,
    Permission::AssignRoles,
];
const FILTERS: [RoleFilter; 4] = [RoleFilter::All, RoleFilter::Leaders, RoleFilter::Members, RoleFilter::Observers];
const MAX_ID: u16 = 10;

fn names(bits: &[bool], all: &[&str]) -> Vec<String> {
    bits.iter().zip(all.iter()).filter(|(b, _)| **b).map(|(_, n)| n.to_string()).collect()
}

fn role_json(r: &ParticipantRole) -> Value {
    match r {
        ParticipantRole::Leader { permissions: p } => json!({"k":"Leader","p":names(
            &[p.can_add_participants, p.can_remove_participants, p.can_update_threshold, p.can_initiate_refresh, p.can_assign_roles, p.can_create_subgroups], &LF)}),
        ParticipantRole::Member { permissions: p } => json!({"k":"Member","p":names(&[p.can_sign, p.can_propose_operations, p.can_vote], &MF)}),
        ParticipantRole::Observer => json!({"k":"Observer","p":Vec::<String>::new()}),
    }
}

fn status_str(s: &ParticipantStatus) -> &'static str {
    match s {
        ParticipantStatus::Active => "Active",
        ParticipantStatus::PendingJoin => "PendingJoin",
        ParticipantStatus::PendingRemoval => "PendingRemoval",
        ParticipantStatus::Inactive => "Inactive",
        ParticipantStatus::Suspended { .. } => "Suspended",
    }
}

fn part_json(p: &ParticipantInfo) -> Value {
    json!({"id":p.participant_id.0,"role":role_json(&p.role),"st":status_str(&p.status)})
}

fn tok(r: &OperationResult) -> &'static str {
    match r {
        OperationResult::Success => "S",
        OperationResult::Failed(_) => "F",
        OperationResult::Pending => "P",
    }
}

fn parent_tok(p: &Option<GroupId>) -> u64 {
    match p {
        None => 0,
        Some(g) => g.0[0] as u64,
    }
}

fn project(g: &ThresholdGroup) -> Value {
    let s = g.audit_log.iter().filter(|e| matches!(e.result, OperationResult::Success)).count();
    let f = g.audit_log.iter().filter(|e| matches!(e.result, OperationResult::Failed(_))).count();
    json!({
        "n": g.participants, "t": g.threshold, "ver": g.version.min(1_000_000_000),
        "act": g.active_participants.iter().map(part_json).collect::<Vec<_>>(),
        "pend": g.pending_participants.iter().map(part_json).collect::<Vec<_>>(),
        "aud": [g.audit_log.len(), s, f],
        "parent": parent_tok(&g.metadata.parent_group), "name": g.metadata.name,
    })
}

fn alog(g: &ThresholdGroup) -> Vec<&'static str> {
    g.audit_log.iter().map(|e| tok(&e.result)).collect()
}

fn res_json<T>(r: &Result<T, ThresholdError>) -> Value {
    match r {
        Ok(_) => json!({"cls":"Ok","msg":"","a":0,"b":0}),
        Err(ThresholdError::InvalidParameters(m)) => json!({"cls":"InvalidParameters","msg":m,"a":0,"b":0}),
        Err(ThresholdError::Unauthorized(m)) => json!({"cls":"Unauthorized","msg":m,"a":0,"b":0}),
        Err(ThresholdError::ParticipantNotFound(id)) => json!({"cls":"NotFound","msg":"","a":id.0,"b":0}),
        Err(ThresholdError::InsufficientParticipants { required, available }) => json!({"cls":"Insufficient","msg":"","a":required,"b":available}),
        Err(e) => json!({"cls":"Other","msg":e.to_string(),"a":0,"b":0}),
    }
}

fn ids(v: &[&ParticipantInfo]) -> Vec<u16> {
    v.iter().map(|p| p.participant_id.0).collect()
}

/// what the parameterless queries answer
fn observe(g: &ThresholdGroup) -> Value {
    let st = g.get_stats();
    let h = g.get_hierarchy();
    json!({
        "active": ids(&g.get_active_participants()), "count": g.active_participant_count(), "has": g.has_threshold_participants(),
        "stats": {"total": st.total_participants, "active": st.active_participants, "pending": st.pending_participants,
                  "suspended": st.suspended_participants, "leaders": st.leaders, "members": st.members, "observers": st.observers,
                  "ops": st.total_operations, "succ": st.successful_operations, "fail": st.failed_operations},
        "hier": {"t": h.threshold, "n": h.participants, "parent": parent_tok(&h.parent), "name": h.name},
        "valid": res_json(&g.validate()),
    })
}

fn rand_role(rng: &mut impl Rng, leader_bias: bool) -> ParticipantRole {
    let k = rng.gen_range(0..10);
    let mode = rng.gen_range(0..10); // 0..5 all flags, 6 none, else random
    fn bit(rng: &mut impl Rng, mode: u32) -> bool {
        if mode < 6 { true } else if mode == 6 { false } else { rng.gen_range(0..2) == 0 }
    }
    if k < if leader_bias { 5 } else { 3 } {
        ParticipantRole::Leader {
            permissions: LeaderPermissions {
                can_add_participants: bit(rng, mode),
                can_remove_participants: bit(rng, mode),
                can_update_threshold: bit(rng, mode),
                can_initiate_refresh: bit(rng, mode),
                can_assign_roles: bit(rng, mode),
                can_create_subgroups: bit(rng, mode),
            },
        }
    } else if k < 8 {
        ParticipantRole::Member { permissions: MemberPermissions { can_sign: bit(rng, mode), can_propose_operations: bit(rng, mode), can_vote: bit(rng, mode) } }
    } else {
        ParticipantRole::Observer
    }
}

fn rand_status(rng: &mut impl Rng, active_pct: u32) -> ParticipantStatus {
    if rng.gen_range(0..100) < active_pct {
        return ParticipantStatus::Active;
    }
    match rng.gen_range(0..5) {
        0 => ParticipantStatus::Active,
        1 => ParticipantStatus::PendingJoin,
        2 => ParticipantStatus::PendingRemoval,
        3 => ParticipantStatus::Inactive,
        _ => ParticipantStatus::Suspended { reason: "test".to_string(), until: SystemTime::now() + Duration::from_secs(60) },
    }
}

fn part(id: u16, role: ParticipantRole, status: ParticipantStatus) -> ParticipantInfo {
    ParticipantInfo {
        participant_id: ParticipantId(id),
        public_key: vec![id as u8; 32],
        frost_share_commitment: FrostCommitment(vec![id as u8; 32]),
        role,
        status,
        joined_at: SystemTime::now(),
        metadata: HashMap::new(),
    }
}

fn entry(result: OperationResult) -> GroupAuditEntry {
    GroupAuditEntry {
        timestamp: SystemTime::now(),
        operation: GroupOperation::RefreshKeys { group_id: GroupId([0; 32]) },
        initiator: ParticipantId(0),
        approvers: vec![],
        result,
        metadata: HashMap::new(),
    }
}

fn rand_result(rng: &mut impl Rng) -> OperationResult {
    match rng.gen_range(0..10) {
        0..=4 => OperationResult::Success,
        5..=7 => OperationResult::Failed("x".to_string()),
        _ => OperationResult::Pending,
    }
}

fn meta(name: String, parent: u8) -> GroupMetadata {
    GroupMetadata {
        name,
        description: "driver".to_string(),
        purpose: GroupPurpose::MultiSig,
        parent_group: if parent == 0 { None } else { Some(GroupId([parent; 32])) },
        custom_data: HashMap::new(),
    }
}

/// members with distinct ids (or, with `dups`, one id repeated)
fn rand_parts(rng: &mut impl Rng, m: usize, dups: bool, leader: bool, active_pct: u32) -> Vec<ParticipantInfo> {
    let mut pool: Vec<u16> = (1..=MAX_ID).collect();
    let mut v = Vec::new();
    for i in 0..m {
        let id = if dups && i > 0 && rng.gen_range(0..3) == 0 {
            v[rng.gen_range(0..v.len())]
        } else {
            pool.remove(rng.gen_range(0..pool.len()))
        };
        v.push(id);
    }
    let mut ps: Vec<ParticipantInfo> = v.iter().map(|id| part(*id, rand_role(rng, false), rand_status(rng, active_pct))).collect();
    if leader && !ps.is_empty() && !ps.iter().any(|p| matches!(p.role, ParticipantRole::Leader { .. })) {
        let i = rng.gen_range(0..ps.len());
        ps[i].role = ParticipantRole::Leader { permissions: LeaderPermissions::default() };
    }
    ps
}

fn literal(seg: u64, n: u16, t: u16, act: Vec<ParticipantInfo>, pend: Vec<ParticipantInfo>, audit: Vec<GroupAuditEntry>, parent: u8) -> ThresholdGroup {
    ThresholdGroup {
        group_id: GroupId([seg as u8; 32]),
        threshold: t,
        participants: n,
        frost_group_key: FrostGroupPublicKey(vec![0; 32]),
        active_participants: act,
        pending_participants: pend,
        version: 1,
        metadata: meta(format!("g{seg}"), parent),
        audit_log: audit,
        created_at: SystemTime::now(),
        last_updated: SystemTime::now(),
    }
}

/// an id the group knows (member or pending) most of the time, any id otherwise
fn pick_id(rng: &mut impl Rng, g: &ThresholdGroup) -> u16 {
    let known: Vec<u16> = g.active_participants.iter().chain(g.pending_participants.iter()).map(|p| p.participant_id.0).collect();
    if !known.is_empty() && rng.gen_range(0..100) < 80 { known[rng.gen_range(0..known.len())] } else { rng.gen_range(1..=MAX_ID + 1) }
}

pub fn drive(a: &Args) -> i32 {
    let out = a.str("out", "/dev/stdout");
    let segments = a.num("segments", 60);
    let ops = a.num("ops", 40);
    common::quiet_panics();
    let mut t = Trace::create(&out);
    let mut rng = common::rng(47);
    let rt = common::rt();
    let mut mgr = ThresholdGroupManager::new(QuantumPeerIdentity {
        peer_id: PeerId(vec![7; 32]),
        ml_dsa_public_key: vec![],
        ml_kem_public_key: vec![],
        frost_public_key: None,
        capabilities: CryptoCapabilities::default(),
        created_at: SystemTime::now(),
    });
    let mut panics = 0u64;
    for seg in 0..segments {
        // ---- the segment's first group
        let kind = rng.gen_range(0..100);
        let m = rng.gen_range(2..=8usize);
        let parent = if rng.gen_range(0..3) == 0 { rng.gen_range(1..=5u8) } else { 0 };
        let audit_heavy = (55..70).contains(&kind);
        let mut g = if kind < 70 {
            // well-formed: n = members, a leader, 1 <= t <= active members (if there is one)
            let act = rand_parts(&mut rng, m, false, true, 80);
            let active = act.iter().filter(|p| matches!(p.status, ParticipantStatus::Active)).count() as u16;
            let tt = if active == 0 { 1 } else { rng.gen_range(1..=active) };
            let alen = if audit_heavy { [990usize, 995, 999, 1000, 1000, 1001, 1100][rng.gen_range(0..7)] } else { rng.gen_range(0..4) };
            let audit = (0..alen).map(|_| entry(rand_result(&mut rng))).collect();
            literal(seg, m as u16, tt, act, vec![], audit, parent)
        } else {
            // anything the public fields allow
            let (dups, leader) = (rng.gen_range(0..3) == 0, rng.gen_range(0..3) > 0);
            let act = rand_parts(&mut rng, m, dups, leader, 50);
            let n = if rng.gen_range(0..2) == 0 { m as u16 } else { rng.gen_range(0..=MAX_ID) };
            let tt = rng.gen_range(0..=MAX_ID);
            let np = rng.gen_range(0..3usize);
            let pend = rand_parts(&mut rng, np, false, false, 20);
            let audit = (0..rng.gen_range(0..4)).map(|_| entry(rand_result(&mut rng))).collect();
            literal(seg, n, tt, act, pend, audit, parent)
        };
        t.ev(json!({"ev":"Reset","seg":seg,"state":project(&g),"alog":alog(&g),"obs":observe(&g)}));
        let create_first = kind >= 90;
        for step in 0..ops {
            let pre = project(&g);
            let mut ev = json!({"ev":"Step"});
            let roll = if create_first && step == 0 { 97 } else if audit_heavy && rng.gen_range(0..10) < 7 { 60 } else { rng.gen_range(0..100) };
            let r = common::catch(AssertUnwindSafe(|| {
                if roll < 13 {
                    let id = pick_id(&mut rng, &g);
                    let r = g.mark_for_removal(&ParticipantId(id));
                    ev["op"] = json!("mark");
                    ev["id"] = json!(id);
                    ev["res"] = res_json(&r);
                } else if roll < 26 {
                    let id = pick_id(&mut rng, &g);
                    let huge = rng.gen_range(0..6) == 0;
                    let d = if huge { Duration::MAX } else { [Duration::ZERO, Duration::from_secs(1), Duration::from_secs(3600), Duration::from_secs(1_000_000_000)][rng.gen_range(0..4)] };
                    ev["op"] = json!("suspend");
                    ev["id"] = json!(id);
                    ev["huge"] = json!(huge);
                    ev["res"] = json!({"cls":"Panic","msg":"","a":0,"b":0}); // stays if the call does not return
                    let r = g.suspend_participant(&ParticipantId(id), "misbehaviour".to_string(), d);
                    ev["res"] = res_json(&r);
                } else if roll < 39 {
                    let id = pick_id(&mut rng, &g);
                    let role = rand_role(&mut rng, false);
                    ev["op"] = json!("role");
                    ev["id"] = json!(id);
                    ev["role"] = role_json(&role);
                    let r = g.update_participant_role(&ParticipantId(id), role);
                    ev["res"] = res_json(&r);
                } else if roll < 50 {
                    let nt = if rng.gen_range(0..4) == 0 { rng.gen_range(0..=MAX_ID + 1) } else { rng.gen_range(0..=g.active_participants.len() as u16 + 1) };
                    ev["op"] = json!("threshold");
                    ev["nt"] = json!(nt);
                    let r = g.update_threshold(nt);
                    ev["res"] = res_json(&r);
                } else if roll < 60 {
                    let id = if rng.gen_range(0..3) == 0 { pick_id(&mut rng, &g) } else { rng.gen_range(1..=MAX_ID + 1) };
                    let p = part(id, rand_role(&mut rng, false), rand_status(&mut rng, 20));
                    ev["op"] = json!("addpending");
                    ev["p"] = part_json(&p);
                    let r = g.add_pending_participant(p);
                    ev["res"] = res_json(&r);
                } else if roll < 70 {
                    let e = entry(rand_result(&mut rng));
                    ev["op"] = json!("audit");
                    ev["tok"] = json!(tok(&e.result));
                    g.add_audit_entry(e);
                    ev["res"] = res_json(&Ok::<(), ThresholdError>(()));
                } else if roll < 86 {
                    let id = pick_id(&mut rng, &g);
                    let perm = PERMS[rng.gen_range(0..PERMS.len())];
                    ev["op"] = json!("check");
                    ev["id"] = json!(id);
                    ev["perm"] = json!(format!("{perm:?}"));
                    let r = g.check_permission(&ParticipantId(id), perm);
                    ev["res"] = res_json(&r);
                } else if roll < 95 {
                    let f = FILTERS[rng.gen_range(0..FILTERS.len())].clone();
                    ev["op"] = json!("byrole");
                    ev["filter"] = json!(format!("{f:?}"));
                    ev["ids"] = json!(ids(&g.get_participants_by_role(f)));
                    ev["res"] = res_json(&Ok::<(), ThresholdError>(()));
                } else {
                    // the constructor: on success the driver goes on with the group it returned
                    let cm = rng.gen_range(0..=6usize);
                    let wild = rng.gen_range(0..2) == 0;
                    let (dups, leader) = (wild && rng.gen_range(0..2) == 0, !wild || rng.gen_range(0..2) == 0);
                    let parts = rand_parts(&mut rng, cm, dups, leader, if wild { 50 } else { 90 });
                    let ct = if rng.gen_range(0..5) == 0 { rng.gen_range(0..=cm as u16 + 2) } else { rng.gen_range(0..=cm as u16).max(if wild { 0 } else { 1 }) };
                    let cparent = if rng.gen_range(0..3) == 0 { rng.gen_range(1..=5u8) } else { 0 };
                    let name = format!("c{seg}_{step}");
                    ev["op"] = json!("create");
                    ev["cfg"] = json!({"t":ct,"parts":parts.iter().map(part_json).collect::<Vec<_>>(),"parent":cparent,"name":name});
                    let r = rt.block_on(mgr.create_group(GroupConfig { threshold: ct, participants: parts, metadata: meta(name, cparent) }));
                    ev["res"] = res_json(&r);
                    if let Ok(ng) = r {
                        g = ng;
                    }
                }
            }));
            if let Err(msg) = r {
                panics += 1;
                ev["panic"] = json!(msg.chars().take(120).collect::<String>());
                if ev.get("res").is_none() {
                    ev["res"] = json!({"cls":"Panic","msg":"","a":0,"b":0});
                }
            }
            ev["pre"] = pre;
            ev["post"] = project(&g);
            ev["obs"] = observe(&g);
            t.ev(ev);
        }
    }
    let lines = t.finish();
    eprintln!("tgroup drive: {segments} segments, {lines} events, {panics} panics caught");
    0
}
