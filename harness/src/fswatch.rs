//! Directory watcher (Linux inotify through libc): names created, deleted and renamed in one
//! directory while an operation runs. Used where a crash between two file operations cannot be
//! placed by a hook: "the store file never disappears once it exists" is decided on the event list.
use std::ffi::CString;
use std::path::Path;

pub struct Watch {
    fd: i32,
}

impl Watch {
    pub fn new(dir: &Path) -> Option<Self> {
        let c = CString::new(dir.to_string_lossy().as_bytes()).ok()?;
        // SAFETY: plain syscalls on a file descriptor owned by this struct
        let fd = unsafe { libc::inotify_init1(libc::IN_NONBLOCK | libc::IN_CLOEXEC) };
        if fd < 0 {
            return None;
        }
        let mask = libc::IN_CREATE | libc::IN_DELETE | libc::IN_MOVED_FROM | libc::IN_MOVED_TO;
        // SAFETY: fd is valid, c is a valid C string
        let wd = unsafe { libc::inotify_add_watch(fd, c.as_ptr(), mask) };
        if wd < 0 {
            // SAFETY: fd is valid
            unsafe { libc::close(fd) };
            return None;
        }
        Some(Watch { fd })
    }

    /// Events so far, in kernel order: (kind, file name).
    pub fn drain(&self) -> Vec<(&'static str, String)> {
        let mut out = Vec::new();
        let mut buf = [0u8; 8192];
        loop {
            // SAFETY: buf is a valid writable buffer of the given length
            let n = unsafe { libc::read(self.fd, buf.as_mut_ptr() as *mut libc::c_void, buf.len()) };
            if n <= 0 {
                break;
            }
            let n = n as usize;
            let hdr = std::mem::size_of::<libc::inotify_event>();
            let mut off = 0usize;
            while off + hdr <= n {
                // SAFETY: the kernel writes whole inotify_event records; read_unaligned copes with alignment
                let ev: libc::inotify_event = unsafe { std::ptr::read_unaligned(buf.as_ptr().add(off) as *const libc::inotify_event) };
                let len = ev.len as usize;
                let name_bytes = &buf[off + hdr..(off + hdr + len).min(n)];
                let name = String::from_utf8_lossy(name_bytes.split(|b| *b == 0).next().unwrap_or(&[])).to_string();
                let kind = if ev.mask & libc::IN_CREATE != 0 {
                    "create"
                } else if ev.mask & libc::IN_DELETE != 0 {
                    "delete"
                } else if ev.mask & libc::IN_MOVED_FROM != 0 {
                    "moved_from"
                } else if ev.mask & libc::IN_MOVED_TO != 0 {
                    "moved_to"
                } else {
                    "other"
                };
                out.push((kind, name));
                off += hdr + len;
            }
        }
        out
    }
}

impl Drop for Watch {
    fn drop(&mut self) {
        // SAFETY: fd is owned by this struct
        unsafe { libc::close(self.fd) };
    }
}
