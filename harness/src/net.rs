//! In-memory network for real `DhtNetworkManager` instances (verif-hooks H1/H2): a hub that
//! routes the real wire frames between real transports, records every frame, and hosts
//! harness-implemented endpoints (silent or lying peers). Runs on a current-thread tokio
//! runtime with paused (virtual) time, so request timeouts cost nothing and every run is
//! reproducible from its seed.
use rand::Rng;
use rand_chacha::ChaCha8Rng;
use saorsa_core::dht::DHTConfig;
use saorsa_core::dht_network_manager::{
    DHTNode, DhtMessageType, DhtNetworkConfig, DhtNetworkManager, DhtNetworkMessage, DhtNetworkOperation, DhtNetworkResult,
};
use saorsa_core::network::NodeConfig;
use saorsa_core::transport_handle::{TransportHandle, VerifNet};
use std::collections::{HashMap, HashSet};
use std::net::SocketAddr;
use std::sync::{Arc, Mutex};
use std::time::Duration;

/// What a harness-implemented endpoint answers to a lookup request (FindNode / FindValue / Get).
#[derive(Clone)]
pub enum FakeReply {
    /// never answers
    Silent,
    /// answers NodesFound with these (peer id, address) pairs
    Nodes(Vec<(String, String)>),
    /// answers with a value (to FindValue / Get) - bytes
    Value(Vec<u8>),
    /// answers GetNotFound
    NotFound,
}

pub struct Fake {
    pub lookup_reply: FakeReply,
    /// PUT requests: true = acknowledge (without storing anything), false = stay silent
    pub ack_put: bool,
}

pub enum Endpoint {
    Real(Arc<TransportHandle>),
    Fake(Fake),
}

/// One frame seen at the hub.
#[derive(Clone, Debug)]
pub struct Frame {
    pub seq: u64,
    pub t_ms: u64,
    pub from: String,
    pub to: String,
    pub proto: String,
    /// decoded DHT message, if the frame carries one
    pub dht: Option<DhtNetworkMessage>,
    /// "delivered", "silent" (target drops it), "unknown" (send error)
    pub fate: &'static str,
}

pub struct HubState {
    pub nodes: HashMap<String, Endpoint>,
    pub addr2id: HashMap<String, String>,
    pub id2addr: HashMap<String, String>,
    /// undirected connections
    pub conns: HashSet<(String, String)>,
    /// connections that were closed again (`Hub::unlink`): the two nodes still know each other (routing tables keep the
    /// entry) but have to dial again before they can exchange frames
    pub closed: HashSet<(String, String)>,
    /// peers that silently drop everything addressed to them (unresponsive)
    pub silent: HashSet<String>,
    /// addresses where a dial never completes (a host that drops packets): only the dialler's own timeout ends it
    pub blackholes: HashSet<String>,
    pub frames: Vec<Frame>,
    /// raw /rr/ frames (from, to, bytes) for the request/response driver
    pub rr_tap: Vec<(String, String, Vec<u8>)>,
    /// every dial the transports asked for: (dialler, address string as handed to connect_peer, reached peer or "")
    pub dials: Vec<(String, String, String)>,
    pub seq: u64,
    pub rng: ChaCha8Rng,
    pub delay_max_ms: u64,
    /// how long a send stays suspended inside the transport before the frame is on the wire (0 = returns at once)
    pub send_delay_max_ms: u64,
    pub start: tokio::time::Instant,
}

pub struct Hub {
    pub st: Mutex<HubState>,
}

/// Canonical text of a socket address string (what `SocketAddr::to_string` gives); unparseable strings stay as they are.
pub fn canon(address: &str) -> String {
    address.parse::<SocketAddr>().map(|a| a.to_string()).unwrap_or_else(|_| address.to_string())
}

fn pair(a: &str, b: &str) -> (String, String) {
    if a <= b { (a.to_string(), b.to_string()) } else { (b.to_string(), a.to_string()) }
}

pub fn now_secs() -> u64 {
    std::time::SystemTime::now().duration_since(std::time::UNIX_EPOCH).map(|d| d.as_secs()).unwrap_or(0)
}

impl Hub {
    pub fn new(rng: ChaCha8Rng, delay_max_ms: u64) -> Arc<Self> {
        Arc::new(Hub {
            st: Mutex::new(HubState {
                nodes: HashMap::new(),
                addr2id: HashMap::new(),
                id2addr: HashMap::new(),
                conns: HashSet::new(),
                closed: HashSet::new(),
                silent: HashSet::new(),
                blackholes: HashSet::new(),
                frames: Vec::new(),
                rr_tap: Vec::new(),
                dials: Vec::new(),
                seq: 0,
                rng,
                delay_max_ms,
                send_delay_max_ms: 0,
                start: tokio::time::Instant::now(),
            }),
        })
    }

    pub fn register(&self, id: &str, addr: &str, ep: Endpoint) {
        let mut s = self.st.lock().expect("hub");
        s.nodes.insert(id.to_string(), ep);
        s.addr2id.insert(canon(addr), id.to_string());
        s.id2addr.insert(id.to_string(), canon(addr));
    }

    /// Record a connection between two endpoints (for connections the harness opens "from outside").
    pub fn link(&self, a: &str, b: &str) {
        self.st.lock().expect("hub").conns.insert(pair(a, b));
    }

    /// Close the connection between two endpoints at the network level (both directions): frames are refused until one of
    /// them dials again. The pair stays in `neighbours` - the nodes still know each other.
    pub fn unlink(&self, a: &str, b: &str) {
        let mut s = self.st.lock().expect("hub");
        if s.conns.remove(&pair(a, b)) {
            s.closed.insert(pair(a, b));
        }
    }

    pub fn add_blackhole(&self, addr: &str) {
        self.st.lock().expect("hub").blackholes.insert(addr.to_string());
    }

    pub fn set_silent(&self, id: &str, on: bool) {
        let mut s = self.st.lock().expect("hub");
        if on {
            s.silent.insert(id.to_string());
        } else {
            s.silent.remove(id);
        }
    }

    pub fn frames_since(&self, seq: u64) -> Vec<Frame> {
        self.st.lock().expect("hub").frames.iter().filter(|f| f.seq > seq).cloned().collect()
    }

    pub fn seq(&self) -> u64 {
        self.st.lock().expect("hub").seq
    }

    pub fn neighbours(&self, id: &str) -> Vec<String> {
        let s = self.st.lock().expect("hub");
        let mut v: Vec<String> = s
            .conns
            .iter()
            .chain(s.closed.iter().filter(|p| !s.conns.contains(*p)))
            .filter_map(|(a, b)| if a == id { Some(b.clone()) } else if b == id { Some(a.clone()) } else { None })
            .collect();
        v.sort();
        v
    }

    /// Peers `id` currently has an open connection to (a subset of `neighbours`).
    pub fn connected(&self, id: &str) -> Vec<String> {
        let s = self.st.lock().expect("hub");
        s.conns.iter().filter_map(|(a, b)| if a == id { Some(b.clone()) } else if b == id { Some(a.clone()) } else { None }).collect()
    }

    /// Reply of a harness endpoint to a DHT request, as a wire frame from `me` (None = stay silent).
    fn fake_reply(me: &str, fake: &Fake, req: &DhtNetworkMessage) -> Option<Vec<u8>> {
        let key = match &req.payload {
            DhtNetworkOperation::FindNode { key } | DhtNetworkOperation::FindValue { key } | DhtNetworkOperation::Get { key } => Some(*key),
            DhtNetworkOperation::Put { key, .. } => Some(*key),
            _ => None,
        };
        let result = match (&req.payload, key) {
            (DhtNetworkOperation::Put { .. }, Some(k)) => {
                if !fake.ack_put {
                    return None;
                }
                DhtNetworkResult::PutSuccess { key: k, replicated_to: 1, peer_outcomes: vec![] }
            }
            (DhtNetworkOperation::Leave, _) => DhtNetworkResult::LeaveSuccess,
            (DhtNetworkOperation::Ping, _) => DhtNetworkResult::PongReceived { responder: me.to_string(), latency: Duration::from_millis(0) },
            (_, Some(k)) => match &fake.lookup_reply {
                FakeReply::Silent => return None,
                FakeReply::NotFound => DhtNetworkResult::GetNotFound { key: k, peers_queried: 0, peers_failed: 0, last_error: None },
                FakeReply::Value(v) => DhtNetworkResult::ValueFound { key: k, value: v.clone(), source: me.to_string() },
                FakeReply::Nodes(ns) => DhtNetworkResult::NodesFound {
                    key: k,
                    nodes: ns
                        .iter()
                        .map(|(p, a)| DHTNode { peer_id: p.clone(), address: a.clone(), distance: None, reliability: 1.0, cached_dht_key: None })
                        .collect(),
                },
            },
            _ => return None,
        };
        let resp = DhtNetworkMessage {
            message_id: req.message_id.clone(),
            source: me.to_string(),
            target: Some(req.source.clone()),
            message_type: DhtMessageType::Response,
            payload: req.payload.clone(),
            result: Some(result),
            timestamp: now_secs(),
            ttl: 9,
            hop_count: 1,
        };
        let data = postcard::to_stdvec(&resp).ok()?;
        Some(saorsa_core::network::verif_encode_wire("/dht/1.0.0", data, me, now_secs()))
    }
}

#[async_trait::async_trait]
impl VerifNet for Hub {
    async fn deliver(&self, from: &str, to: &str, frame: Vec<u8>) -> Result<(), String> {
        let suspend = {
            let mut s = self.st.lock().expect("hub");
            let m = s.send_delay_max_ms;
            if m > 0 { s.rng.gen_range(0..=m) } else { 0 }
        };
        if suspend > 0 {
            tokio::time::sleep(Duration::from_millis(suspend)).await;
        }
        let decoded = saorsa_core::network::verif_decode_wire(&frame);
        let (proto, dht) = match &decoded {
            Some((p, d, _, _)) => (p.clone(), if p == "/dht/1.0.0" { postcard::from_bytes::<DhtNetworkMessage>(d).ok() } else { None }),
            None => ("?".to_string(), None),
        };
        enum Act {
            Inject(Arc<TransportHandle>, String, Vec<u8>, u64),
            Nothing,
        }
        let act;
        {
            let mut s = self.st.lock().expect("hub");
            s.seq += 1;
            let seq = s.seq;
            let t_ms = s.start.elapsed().as_millis() as u64;
            let known = s.nodes.contains_key(to) && s.conns.contains(&pair(from, to));
            let silent = s.silent.contains(to);
            let fate = if !known { "unknown" } else if silent { "silent" } else { "delivered" };
            if proto.starts_with("/rr/") {
                s.rr_tap.push((from.to_string(), to.to_string(), frame.clone()));
            }
            s.frames.push(Frame { seq, t_ms, from: from.to_string(), to: to.to_string(), proto, dht: dht.clone(), fate });
            if !known {
                return Err(format!("no connection to {to}"));
            }
            let dmax = s.delay_max_ms;
            let delay = if dmax == 0 { 0 } else { s.rng.gen_range(0..=dmax) };
            act = if silent {
                Act::Nothing
            } else {
                match s.nodes.get(to) {
                    Some(Endpoint::Real(t)) => Act::Inject(t.clone(), from.to_string(), frame, delay),
                    Some(Endpoint::Fake(f)) => {
                        // a harness endpoint answers requests addressed to it
                        let reply = match &dht {
                            Some(m) if matches!(m.message_type, DhtMessageType::Request) => Hub::fake_reply(to, f, m),
                            _ => None,
                        };
                        let back = match s.nodes.get(from) {
                            Some(Endpoint::Real(t)) => Some(t.clone()),
                            _ => None,
                        };
                        match (reply, back) {
                            (Some(bytes), Some(t)) => {
                                s.seq += 1;
                                let seq2 = s.seq;
                                let d2 = postcard::from_bytes::<DhtNetworkMessage>(
                                    &saorsa_core::network::verif_decode_wire(&bytes).map(|x| x.1).unwrap_or_default(),
                                )
                                .ok();
                                s.frames.push(Frame { seq: seq2, t_ms, from: to.to_string(), to: from.to_string(), proto: "/dht/1.0.0".into(), dht: d2, fate: "delivered" });
                                Act::Inject(t, to.to_string(), bytes, delay)
                            }
                            _ => Act::Nothing,
                        }
                    }
                    None => Act::Nothing,
                }
            };
        }
        if let Act::Inject(t, sender, bytes, delay) = act {
            tokio::spawn(async move {
                if delay > 0 {
                    tokio::time::sleep(Duration::from_millis(delay)).await;
                } else {
                    tokio::task::yield_now().await;
                }
                let _ = t.verif_inject(&sender, bytes).await;
            });
        }
        Ok(())
    }

    async fn connect(&self, from: &str, from_addr: &str, address: &str) -> Result<String, String> {
        let hole = {
            let mut s = self.st.lock().expect("hub");
            let reached = s.addr2id.get(&canon(address)).cloned().unwrap_or_default();
            s.dials.push((from.to_string(), address.to_string(), reached));
            s.blackholes.contains(address)
        };
        // the QUIC path parses the string as a SocketAddr; anything else is an invalid address there
        let address = &canon(address);
        if hole {
            tokio::time::sleep(Duration::from_secs(10_000_000)).await;
            return Err("no answer".into());
        }
        let (target, ep) = {
            let mut s = self.st.lock().expect("hub");
            let Some(id) = s.addr2id.get(address).cloned() else {
                return Err("nobody listens there".into());
            };
            if s.silent.contains(&id) {
                return Err("connection timed out".into());
            }
            s.conns.insert(pair(from, &id));
            let ep = match s.nodes.get(&id) {
                Some(Endpoint::Real(t)) => Some(t.clone()),
                _ => None,
            };
            (id, ep)
        };
        if let Some(t) = ep
            && let Ok(sa) = from_addr.parse::<SocketAddr>()
        {
            t.verif_accept(from, sa).await;
        }
        Ok(target)
    }
}

pub struct RealNode {
    pub id: String,
    pub addr: String,
    pub transport: Arc<TransportHandle>,
    pub mgr: Arc<DhtNetworkManager>,
}

pub fn hex_id(rng: &mut impl Rng) -> String {
    let mut b = [0u8; 32];
    rng.fill(&mut b);
    hex::encode(b)
}

/// Addresses are spread over distinct /16s so that the IP-diversity gates (C13) do not interfere.
pub fn addr_for(i: usize) -> String {
    format!("{}.{}.{}.{}:{}", 11 + (i * 7) % 200, 1 + (i * 13) % 250, 1 + (i * 29) % 250, 1 + i % 250, 9000 + i)
}

pub async fn spawn_real(hub: &Arc<Hub>, id: &str, addr: &str, request_timeout: Duration, k: usize) -> Result<RealNode, String> {
    spawn_real_ct(hub, id, addr, request_timeout, k, 1).await
}

pub async fn spawn_real_ct(hub: &Arc<Hub>, id: &str, addr: &str, request_timeout: Duration, k: usize, conn_mult: u32) -> Result<RealNode, String> {
    let t = Arc::new(TransportHandle::verif_new_in_memory(
        id.to_string(),
        id.to_string(),
        addr.to_string(),
        hub.clone() as Arc<dyn VerifNet>,
        request_timeout * conn_mult.max(1),
    ));
    t.start_network_listeners().await.map_err(|e| e.to_string())?;
    let mut node_config = NodeConfig::default();
    if let Ok(sa) = addr.parse::<SocketAddr>() {
        node_config.listen_addr = sa;
    }
    let cfg = DhtNetworkConfig {
        local_peer_id: id.to_string(),
        dht_config: DHTConfig::default(),
        node_config,
        request_timeout,
        max_concurrent_operations: 64,
        replication_factor: k,
        enable_security: false,
    };
    let mgr = Arc::new(DhtNetworkManager::new(t.clone(), None, cfg).await.map_err(|e| e.to_string())?);
    mgr.start().await.map_err(|e| e.to_string())?;
    hub.register(id, addr, Endpoint::Real(t.clone()));
    Ok(RealNode { id: id.to_string(), addr: addr.to_string(), transport: t, mgr })
}

/// Let spawned tasks (event handlers, deliveries) run until the network is quiet.
pub async fn settle() {
    for _ in 0..50 {
        tokio::task::yield_now().await;
    }
    tokio::time::sleep(Duration::from_millis(5)).await;
    for _ in 0..50 {
        tokio::task::yield_now().await;
    }
}

pub fn paused_rt() -> tokio::runtime::Runtime {
    tokio::runtime::Builder::new_current_thread().enable_all().start_paused(true).build().expect("runtime")
}

// ---------------------------------------------------------------------------------------------
// Cluster scenarios
// ---------------------------------------------------------------------------------------------

pub struct Cluster {
    pub hub: Arc<Hub>,
    pub reals: Vec<RealNode>,
    pub fakes: Vec<(String, String)>, // (id, addr)
    pub topo: &'static str,
    pub fullmesh: bool,
    pub silent: Vec<String>,
}

#[derive(Clone)]
pub struct ClusterSpec {
    pub n_real: usize,
    pub n_fake: usize,
    pub k: usize,
    pub request_timeout: Duration,
    pub delay_max_ms: u64,
    pub p_silent: f64,
    /// transport connection timeout = request timeout x this factor (the dial in lookups is bounded by the smaller of the two)
    pub conn_timeout_mult: u32,
}

/// Build a cluster of real managers (+ harness endpoints) with a seeded random topology.
pub async fn build_cluster(spec: &ClusterSpec, rng: &mut ChaCha8Rng, hub_rng: ChaCha8Rng) -> Result<Cluster, String> {
    let hub = Hub::new(hub_rng, spec.delay_max_ms);
    let mut reals = Vec::new();
    for i in 0..spec.n_real {
        let id = hex_id(rng);
        let addr = addr_for(i + 1);
        reals.push(spawn_real_ct(&hub, &id, &addr, spec.request_timeout, spec.k, spec.conn_timeout_mult).await?);
    }
    let n = spec.n_real;
    // topology over the real nodes: list of (dialer, listener)
    let topo = ["fullmesh", "star", "line", "random", "clusters", "fullmesh"][rng.gen_range(0..6)];
    let mut edges: Vec<(usize, usize)> = Vec::new();
    match topo {
        "fullmesh" => {
            for a in 0..n {
                for b in (a + 1)..n {
                    edges.push((a, b));
                }
            }
        }
        "star" => {
            for b in 1..n {
                edges.push((0, b));
            }
        }
        "line" => {
            for a in 0..n.saturating_sub(1) {
                edges.push((a, a + 1));
            }
        }
        "clusters" => {
            let h = n / 2;
            for a in 0..h {
                for b in (a + 1)..h {
                    edges.push((a, b));
                }
            }
            for a in h..n {
                for b in (a + 1)..n {
                    edges.push((a, b));
                }
            }
            if h > 0 && h < n {
                edges.push((h - 1, h));
            }
        }
        _ => {
            let p = rng.gen_range(0.2..0.8);
            for a in 0..n {
                for b in (a + 1)..n {
                    if rng.gen_bool(p) {
                        edges.push((a, b));
                    }
                }
            }
            // keep it connected through a random spanning chain
            for a in 0..n.saturating_sub(1) {
                if !edges.contains(&(a, a + 1)) {
                    edges.push((a, a + 1));
                }
            }
        }
    }
    for (a, b) in &edges {
        let (d, l) = if rng.gen_bool(0.5) { (*a, *b) } else { (*b, *a) };
        let addr = reals[l].addr.clone();
        let _ = reals[d].mgr.connect_to_peer(&addr).await;
        settle().await;
    }
    // harness endpoints: each known to (dialled by) one or more real nodes
    let mut fakes = Vec::new();
    for j in 0..spec.n_fake {
        let id = hex_id(rng);
        let addr = addr_for(100 + j);
        fakes.push((id, addr));
    }
    let fullmesh = topo == "fullmesh";
    // unresponsive real peers (never the first node, which issues most operations)
    let mut silent = Vec::new();
    for r in reals.iter().skip(1) {
        if rng.gen_bool(spec.p_silent) {
            silent.push(r.id.clone());
        }
    }
    Ok(Cluster { hub, reals, fakes, topo, fullmesh, silent })
}

impl Cluster {
    /// Register harness endpoints with their behaviour and let `attach_to` real nodes dial them.
    pub async fn add_fake(&self, idx: usize, fake: Fake, attach_to: &[usize]) {
        let (id, addr) = self.fakes[idx].clone();
        self.hub.register(&id, &addr, Endpoint::Fake(fake));
        for &a in attach_to {
            let _ = self.reals[a].mgr.connect_to_peer(&addr).await;
            settle().await;
        }
    }
    pub fn apply_silence(&self) {
        for s in &self.silent {
            self.hub.set_silent(s, true);
        }
    }
    pub async fn shutdown(self) {
        self.shutdown_within(Duration::from_secs(3600)).await
    }
    /// Stop every node, waiting at most `each` for each stop call (real-time runs: a node that hangs must not hold up the run).
    pub async fn shutdown_within(self, each: Duration) {
        for r in &self.reals {
            // silence everything so that stop() does not wait for Leave round trips
            self.hub.set_silent(&r.id, true);
        }
        for r in self.reals {
            let _ = tokio::time::timeout(each, r.mgr.stop()).await;
            let _ = tokio::time::timeout(each, r.transport.stop()).await;
        }
    }
}
