//! C06/C07 driver: operation histories on the real PersistentStateManager<String> with
//!  * crash images: the state directory copied at every verif-hooks crash point of an armed
//!    operation (+ every byte-truncation of the last record), each reopened with the real
//!    recovery (event CrashImage);
//!  * clean restarts (CleanReopen) and continuation from a crash image (ContinueFrom);
//!  * damage (C07): flips, truncations, garbage, duplicated and transplanted records applied
//!    to quiescent images, each reopened (event Damaged, with the file layout as parsed from
//!    the image so that the acceptor can compute which records the property wants honoured).
//! The oracle is spec/Trace_Wal.tla. Keys and values are logged as small integer tokens.
use crate::common::{self, Args, Trace};
use rand::Rng;
use rand::seq::SliceRandom;
use saorsa_core::persistent_state::{FlushStrategy, PersistentStateManager, StateConfig, WalEntry};
use serde_json::{Value, json};
use std::collections::HashMap;
use std::path::{Path, PathBuf};
use std::sync::{Arc, Mutex};

type Mgr = PersistentStateManager<String>;

fn key_name(k: u64) -> String {
    format!("key-{k}")
}
fn val_str(tok: u64) -> String {
    // variable length so that record sizes differ; some values are long enough for bytes shifted
    // from the key into the value to decode as a (never written) string
    format!("val-{tok}-{}", "x".repeat((tok % 89) as usize))
}
fn key_tok(s: &str) -> i64 {
    s.strip_prefix("key-").and_then(|x| x.parse().ok()).unwrap_or(-1)
}
fn val_tok(s: &str) -> i64 {
    let mut it = s.splitn(3, '-');
    if it.next() != Some("val") {
        return -1;
    }
    let tok: i64 = it.next().and_then(|x| x.parse().ok()).unwrap_or(-1);
    if tok >= 0 && val_str(tok as u64) == s { tok } else { -1 }
}

fn copy_dir(src: &Path, dst: &Path) {
    let _ = std::fs::remove_dir_all(dst);
    std::fs::create_dir_all(dst).expect("mkdir");
    if let Ok(rd) = std::fs::read_dir(src) {
        for e in rd.flatten() {
            if e.path().is_file() {
                let _ = std::fs::copy(e.path(), dst.join(e.file_name()));
            }
        }
    }
}

fn dir_bytes(d: &Path) -> u64 {
    std::fs::read_dir(d).map(|rd| rd.flatten().filter_map(|e| e.metadata().ok()).map(|m| m.len()).sum()).unwrap_or(0)
}

fn cfg(dir: &Path) -> StateConfig {
    StateConfig {
        state_dir: dir.to_path_buf(),
        flush_strategy: FlushStrategy::Always,
        ..Default::default()
    }
}

/// Projection of the recovered state: token per key 1..=nk (0 = absent, -1 = not a value the harness ever wrote).
fn project(all: &HashMap<String, String>, nk: u64) -> (Vec<i64>, i64) {
    let mut v = Vec::new();
    for k in 1..=nk {
        v.push(match all.get(&key_name(k)) {
            None => 0,
            Some(s) => val_tok(s),
        });
    }
    let foreign = all.keys().filter(|k| { let t = key_tok(k); t < 1 || t as u64 > nk }).count() as i64;
    (v, foreign)
}

struct Reopened {
    ok: bool,
    panic: bool,
    state: Vec<i64>,
    foreign: i64,
    counter: i64,
    failed: i64,
    nevents: i64,
    recovered: i64,
    peak_kib: i64,
    dir_kib: i64,
}

static HANGS: std::sync::atomic::AtomicUsize = std::sync::atomic::AtomicUsize::new(0);

/// `reopen_inner` under a watchdog: a recovery that does not finish within 20 s of wall-clock time
/// is reported as not completing (the worker thread is abandoned).
fn reopen(dir: &Path, nk: u64) -> Reopened {
    let (tx, rx) = std::sync::mpsc::channel();
    let d = dir.to_path_buf();
    std::thread::spawn(move || {
        let _ = tx.send(reopen_inner(&d, nk));
    });
    match rx.recv_timeout(std::time::Duration::from_secs(20)) {
        Ok(r) => r,
        Err(_) => {
            HANGS.fetch_add(1, std::sync::atomic::Ordering::SeqCst);
            Reopened { ok: false, panic: false, state: vec![], foreign: 0, counter: -1, failed: -1, nevents: -1, recovered: -1, peak_kib: 1 << 30, dir_kib: 0 }
        }
    }
}

/// Open `dir` with the real constructor (recovery) on a throw-away runtime and read back everything observable.
fn reopen_inner(dir: &Path, nk: u64) -> Reopened {
    let dir_kib = (dir_bytes(dir) / 1024) as i64;
    let d = dir.to_path_buf();
    crate::alloc::reset_peak();
    let base = crate::alloc::current();
    let r = std::panic::catch_unwind(move || {
        let rt = common::rt();
        rt.block_on(async move {
            match Mgr::new(cfg(&d)).await {
                Ok(m) => {
                    let all = m.get_all().unwrap_or_default();
                    let st = m.recovery_stats().ok();
                    let c = m.verif_transaction_counter();
                    Some((all, st, c))
                }
                Err(_) => None,
            }
        })
    });
    let peak_kib = (crate::alloc::peak().saturating_sub(base) / 1024) as i64;
    match r {
        Err(_) => Reopened { ok: false, panic: true, state: vec![], foreign: 0, counter: -1, failed: -1, nevents: -1, recovered: -1, peak_kib, dir_kib },
        Ok(None) => Reopened { ok: false, panic: false, state: vec![], foreign: 0, counter: -1, failed: -1, nevents: -1, recovered: -1, peak_kib, dir_kib },
        Ok(Some((all, st, c))) => {
            let (state, foreign) = project(&all, nk);
            let (failed, nevents, recovered) = st
                .map(|s| (s.entries_failed as i64, s.corruption_events.len() as i64, s.entries_recovered as i64))
                .unwrap_or((-1, -1, -1));
            Reopened { ok: true, panic: false, state, foreign, counter: c.min(1 << 30) as i64, failed, nevents, recovered, peak_kib, dir_kib }
        }
    }
}

fn obs(r: &Reopened) -> Value {
    json!({"ok": r.ok, "panic": r.panic, "state": r.state, "foreign": r.foreign, "counter": r.counter,
           "failed": r.failed, "nevents": r.nevents, "recovered": r.recovered, "peak_kib": r.peak_kib, "dir_kib": r.dir_kib})
}

fn merge(mut a: Value, b: Value) -> Value {
    if let (Some(x), Some(y)) = (a.as_object_mut(), b.as_object()) {
        for (k, v) in y {
            x.insert(k.clone(), v.clone());
        }
    }
    a
}

/// Frames of a WAL file: (offset of the length prefix, payload length, decoded (key token, value token or 0)).
fn frames(path: &Path) -> Vec<(u64, u64, i64, i64)> {
    let data = std::fs::read(path).unwrap_or_default();
    let mut out = Vec::new();
    let mut off = 0usize;
    while off + 4 <= data.len() {
        let len = u32::from_le_bytes([data[off], data[off + 1], data[off + 2], data[off + 3]]) as usize;
        if off + 4 + len > data.len() {
            break;
        }
        let (k, v) = match postcard::from_bytes::<WalEntry>(&data[off + 4..off + 4 + len]) {
            Ok(e) => {
                let v = match &e.value {
                    None => 0,
                    Some(b) => postcard::from_bytes::<String>(b).map(|s| val_tok(&s)).unwrap_or(-1),
                };
                (key_tok(&e.key), v)
            }
            Err(_) => (-1, -1),
        };
        out.push((off as u64, len as u64, k, v));
        off += 4 + len;
    }
    out
}

/// WAL files of an image in the order recovery is meant to replay them: rotated by time, then the current one.
fn wal_files(dir: &Path) -> Vec<PathBuf> {
    let mut rot: Vec<(u64, PathBuf)> = Vec::new();
    let mut cur = None;
    if let Ok(rd) = std::fs::read_dir(dir) {
        for e in rd.flatten() {
            let name = e.file_name().to_string_lossy().to_string();
            if name == "state.wal" {
                cur = Some(e.path());
            } else if let Some(ts) = name.strip_prefix("wal.").and_then(|n| n.strip_suffix(".wal")).and_then(|n| n.parse::<u64>().ok()) {
                rot.push((ts, e.path()));
            }
        }
    }
    rot.sort();
    let mut v: Vec<PathBuf> = rot.into_iter().map(|x| x.1).collect();
    if let Some(c) = cur {
        v.push(c);
    }
    v
}

/// Largest timestamp among the rotated files (0 if none): grows with every rotation.
fn rotated_files(dir: &Path) -> u64 {
    std::fs::read_dir(dir)
        .map(|rd| {
            rd.flatten()
                .filter_map(|e| {
                    let n = e.file_name().to_string_lossy().to_string();
                    n.strip_prefix("wal.").and_then(|x| x.strip_suffix(".wal")).and_then(|x| x.parse::<u64>().ok())
                })
                .max()
                .unwrap_or(0)
        })
        .unwrap_or(0)
}

fn snapshots(dir: &Path) -> Vec<PathBuf> {
    let mut v: Vec<PathBuf> = std::fs::read_dir(dir)
        .map(|rd| rd.flatten().map(|e| e.path()).filter(|p| p.extension().and_then(|s| s.to_str()) == Some("snap")).collect())
        .unwrap_or_default();
    v.sort();
    v
}

struct Ctx {
    armed: bool,
    live: PathBuf,
    imgroot: PathBuf,
    images: Vec<(&'static str, PathBuf)>,
    n: u64,
}

pub fn drive(a: &Args) -> i32 {
    let out = a.str("out", "/dev/stdout");
    let segments = a.num("segments", 10);
    let tmp = PathBuf::from(a.str("tmp", "/tmp/scverif-c06"));
    let cuts_max = a.num("cuts", 10) as usize;
    let long_every = a.num("long_every", 6);
    let damage_budget = a.num("damage", 40) as usize;
    let _ = std::fs::remove_dir_all(&tmp);
    std::fs::create_dir_all(&tmp).expect("tmp dir");
    common::quiet_panics();
    let mut t = Trace::create(&out);
    let mut rng = common::rng(6);
    let ctx = Arc::new(Mutex::new(Ctx { armed: false, live: PathBuf::new(), imgroot: tmp.join("img"), images: vec![], n: 0 }));
    {
        let c2 = ctx.clone();
        saorsa_core::verif_hooks::set_crash_callback(Some(Arc::new(move |name: &'static str| {
            let mut c = c2.lock().expect("ctx");
            if c.armed {
                c.n += 1;
                let dst = c.imgroot.join(format!("i{}", c.n));
                copy_dir(&c.live, &dst);
                c.images.push((name, dst));
            }
        })));
    }
    let rt = common::rt();
    let mut next_tok: u64 = 1;
    let mut store_no = 0u64;
    // a second store whose records are transplanted into damaged images
    let foreign_dir = tmp.join("foreign");
    rt.block_on(async {
        let m = Mgr::new(cfg(&foreign_dir)).await.expect("foreign store");
        for k in 1..=3u64 {
            let _ = m.upsert(key_name(k), val_str(900_000 + k)).await;
        }
    });
    let foreign_frames = frames(&foreign_dir.join("state.wal"));
    let foreign_bytes = std::fs::read(foreign_dir.join("state.wal")).unwrap_or_default();

    for seg in 0..segments {
        if HANGS.load(std::sync::atomic::Ordering::SeqCst) >= 3 {
            break; // recoveries do not terminate: enough evidence, do not burn the time budget
        }
        let long = long_every > 0 && seg % long_every == long_every - 1;
        // long segments use more keys: a lost record stays visible until its key is rewritten
        let collide_seg = long_every > 0 && seg % long_every == long_every - 1 && (seg / long_every.max(1)) % 2 == 1;
        // the burst schedule uses many keys: records lost with an overwritten rotated file must not all be
        // masked by later writes to the same keys
        let nk: u64 = if collide_seg { 300 } else if long { 16 } else { rng.gen_range(1..=4) };
        // long segments alternate between two schedules:
        //   "ckpt"    : checkpoints in the middle of each file and (clock advanced) after every other rotation, restarts
        //   "collide" : six rotations in a burst with no checkpoint and no restart in between (rotated-file names
        //               carry the wall-clock second), observed at the rotations and by a clean restart at the end
        let collide = long && (seg / long_every.max(1)) % 2 == 1;
        // every other burst segment restarts the process (cleanly) in the middle of the burst: the rotations after the
        // restart still fall into the seconds whose names the burst has already used
        let collide_restart = collide && (seg / long_every.max(1)) % 4 == 3;
        let nops: u64 = if collide { rng.gen_range(6010..6080) } else if long { rng.gen_range(2050..3100) } else { rng.gen_range(12..40) };
        store_no += 1;
        let mut live = tmp.join(format!("live{store_no}"));
        let _ = std::fs::remove_dir_all(&live);
        t.ev(json!({"ev":"Reset","nk":nk,"long":long}));
        let mut mgr: Option<Mgr> = Some(rt.block_on(async { Mgr::new(cfg(&live)).await.expect("open") }));
        ctx.lock().expect("ctx").live = live.clone();
        let mut damage_left = if long { damage_budget / 2 } else { damage_budget };
        let mut i = 0u64;
        let mut since_open = 0u64; // the writer's entry count restarts whenever the store is opened
        let mut nrot = 0u64;
        let mut nrot_seen = 0u32;
        let mut post_rot = 0u32;
        let mut clock_step = false;
        while i < nops {
            i += 1;
            let m = mgr.as_ref().expect("mgr");
            // which operations are observed at their crash points
            since_open += 1;
            if long && post_rot == 0 && rotated_files(&live) > nrot {
                nrot = rotated_files(&live);
                nrot_seen += 1;
                post_rot = 1; // a rotation just happened: checkpoint (clock advanced), a few armed ops, clean restart
            }
            // burst schedule: nothing is observed until the three rotations have happened (observing costs wall-clock
            // time and would spread the rotations over several seconds); the last operations and a clean restart are
            let armed = if collide { i + 3 > nops }
                        else if long { since_open >= 996 || post_rot > 0 || rng.gen_bool(0.004) } else { rng.gen_bool(0.6) };
            ctx.lock().expect("ctx").armed = armed;
            let kind = if long {
                // long segments exist to force rotation: mostly writes; a checkpoint in the middle of each
                // file and one right after each rotation (with the clock advanced in between, since
                // snapshot and rotated-file names carry the wall-clock second), then a clean restart
                let x = rng.gen_range(0..1000);
                if collide { post_rot = 0; if i == nops || (collide_restart && i == 3500) { 99 } else if x < 700 { 0 } else { 70 } }
                else if post_rot == 1 && nrot_seen % 2 == 0 { post_rot = 2; clock_step = true; 92 }
                else if post_rot == 1 { post_rot = 3; if x < 700 { 0 } else { 70 } } // every other rotation: no checkpoint, the rotated file stays
                else if post_rot >= 2 && post_rot < 5 { post_rot += 1; if x < 700 { 0 } else { 70 } }
                else if post_rot == 5 { post_rot = 0; 99 }
                else if since_open == 400 { 92 }
                else if x < 700 { 0 } else if x < 995 { 70 } else { 92 }
            } else {
                rng.gen_range(0..100)
            };
            // burst segments: every thousand operations write to a band of keys of their own, so that the records of
            // one rotated file are never masked by later writes (a lost file shows at the final restart)
            let band = |rng: &mut rand_chacha::ChaCha8Rng| if collide { ((i / 1000) * 40 + rng.gen_range(1..=40)).min(nk) } else { rng.gen_range(1..=nk) };
            let (begin, res): (Value, Result<Value, String>) = if kind < 60 {
                let k = band(&mut rng);
                let v = next_tok;
                next_tok += 1;
                let r = rt.block_on(m.upsert(key_name(k), val_str(v)));
                (json!({"op":"upsert","chg":[[k, v]]}), r.map(|old| json!({"old": old.map(|s| val_tok(&s)).unwrap_or(0)})).map_err(|e| e.to_string()))
            } else if kind < 78 {
                let k = band(&mut rng);
                let r = rt.block_on(m.delete(&key_name(k)));
                (json!({"op":"delete","chg":[[k, 0]]}), r.map(|old| json!({"old": old.map(|s| val_tok(&s)).unwrap_or(0)})).map_err(|e| e.to_string()))
            } else if kind < 90 && !long {
                // batch over distinct keys: upserts and deletes
                let mut ks: Vec<u64> = (1..=nk).collect();
                ks.shuffle(&mut rng);
                ks.truncate(rng.gen_range(1..=nk.min(3)) as usize);
                let mut chg = Vec::new();
                for k in ks {
                    if rng.gen_bool(0.75) {
                        chg.push((k, next_tok));
                        next_tok += 1;
                    } else {
                        chg.push((k, 0));
                    }
                }
                let c2 = chg.clone();
                let r = rt.block_on(m.batch_update(move |st| {
                    for (k, v) in &c2 {
                        if *v == 0 {
                            st.remove(&key_name(*k));
                        } else {
                            st.insert(key_name(*k), val_str(*v));
                        }
                    }
                    Ok(())
                }));
                (json!({"op":"batch","chg":chg.iter().map(|(k,v)| vec![*k,*v]).collect::<Vec<_>>()}), r.map(|_| json!({"old": -2})).map_err(|e| e.to_string()))
            } else if kind < 96 {
                // snapshot and rotated-file names carry the wall-clock second: let the clock advance
                // now and then so that several snapshots / rotations with distinct names exist
                if clock_step || rng.gen_bool(if long { 0.05 } else { 0.04 }) {
                    clock_step = false;
                    std::thread::sleep(std::time::Duration::from_millis(1050));
                }
                let r = rt.block_on(m.checkpoint());
                (json!({"op":"checkpoint","chg":[]}), r.map(|_| json!({"old": -2})).map_err(|e| e.to_string()))
            } else {
                // clean restart
                ctx.lock().expect("ctx").armed = false;
                mgr = None;
                let r = reopen(&live, nk);
                t.ev(merge(json!({"ev":"CleanReopen"}), obs(&r)));
                mgr = Some(rt.block_on(async { Mgr::new(cfg(&live)).await.expect("open") }));
                since_open = 0;
                continue;
            };
            ctx.lock().expect("ctx").armed = false;
            let txn = mgr.as_ref().expect("mgr").verif_transaction_counter().min(1 << 30);
            t.ev(merge(json!({"ev":"Begin","i":i}), begin.clone()));
            // observations of the crash images taken while the operation ran
            let images: Vec<(&'static str, PathBuf)> = std::mem::take(&mut ctx.lock().expect("ctx").images);
            let mut cont: Option<PathBuf> = None;
            for (idx, (point, img)) in images.iter().enumerate() {
                let work = tmp.join("reopen");
                copy_dir(img, &work);
                let r = reopen(&work, nk);
                t.ev(merge(json!({"ev":"CrashImage","point":point,"cut":-1}), obs(&r)));
                // byte truncations of the record being written
                if *point == "wal.payload" || *point == "wal.len" {
                    let wal = img.join("state.wal");
                    let len = std::fs::metadata(&wal).map(|m| m.len()).unwrap_or(0);
                    let fr = frames(&wal);
                    let start = if *point == "wal.payload" { fr.last().map(|f| f.0).unwrap_or(0) } else { len.saturating_sub(4) };
                    let mut cuts: Vec<u64> = ((start + 1)..len).collect();
                    if cuts.len() > cuts_max {
                        cuts.shuffle(&mut rng);
                        cuts.truncate(cuts_max);
                    }
                    for cut in cuts {
                        copy_dir(img, &work);
                        if let Ok(f) = std::fs::OpenOptions::new().write(true).open(work.join("state.wal")) {
                            let _ = f.set_len(cut);
                        }
                        let r = reopen(&work, nk);
                        t.ev(merge(json!({"ev":"CrashImage","point":"trunc","cut":cut - start}), obs(&r)));
                        // a torn FIRST record of a file is a corner of its own: continue from it more often
                        let first_record = fr.len() <= 1;
                        if cont.is_none() && rng.gen_bool(if first_record { 0.25 } else { 0.03 }) {
                            let keep = tmp.join("cont");
                            copy_dir(img, &keep);
                            if let Ok(f) = std::fs::OpenOptions::new().write(true).open(keep.join("state.wal")) {
                                let _ = f.set_len(cut);
                            }
                            cont = Some(keep);
                        }
                    }
                }
                if cont.is_none() && rng.gen_bool(0.06) && idx + 1 < images.len() + 1 {
                    let keep = tmp.join("cont");
                    copy_dir(img, &keep);
                    cont = Some(keep);
                }
            }
            for (_, img) in &images {
                let _ = std::fs::remove_dir_all(img);
            }
            match cont {
                Some(keep) if !long => {
                    // the process "died" at that image: continue the history on it (repeated crash-recover cycles)
                    mgr = None;
                    store_no += 1;
                    live = tmp.join(format!("live{store_no}"));
                    copy_dir(&keep, &live);
                    let r = reopen(&live, nk);
                    t.ev(merge(json!({"ev":"ContinueFrom"}), obs(&r)));
                    mgr = Some(rt.block_on(async { Mgr::new(cfg(&live)).await.expect("open") }));
                    since_open = 0;
                    ctx.lock().expect("ctx").live = live.clone();
                    continue;
                }
                _ => {}
            }
            match res {
                Ok(extra) => t.ev(merge(json!({"ev":"End","ok":true,"txn":txn}), extra)),
                Err(e) => t.ev(json!({"ev":"End","ok":false,"txn":txn,"old":-2,"err":e})),
            }
            // ---- C07: damage a quiescent image
            if damage_left > 0 && (if long { i > 2000 && rng.gen_bool(0.05) } else { i > 3 && rng.gen_bool(0.25) }) {
                let img = tmp.join("quiet");
                copy_dir(&live, &img);
                let files = wal_files(&img);
                let layout: Vec<Vec<Vec<i64>>> = files.iter().map(|f| frames(f).iter().map(|x| vec![x.2, x.3]).collect()).collect();
                // keep layouts loggable: only short files are described record by record
                let total: usize = layout.iter().map(|l| l.len()).sum();
                let describe = total <= 120;
                let nvariants = if long { 4 } else { 6 };
                for _ in 0..nvariants {
                    if damage_left == 0 {
                        break;
                    }
                    damage_left -= 1;
                    let work = tmp.join("dmg");
                    copy_dir(&img, &work);
                    let snaps = snapshots(&work);
                    let pick_snap = !snaps.is_empty() && rng.gen_bool(0.3);
                    let mut ev = json!({"ev":"Damaged"});
                    if pick_snap {
                        let s = snaps.last().expect("snap").clone();
                        let mut data = std::fs::read(&s).unwrap_or_default();
                        if data.len() < 8 { continue; }
                        let hdr = u32::from_le_bytes([data[0], data[1], data[2], data[3]]) as usize;
                        let class = ["snapbody", "snaphdr", "snapappend", "snaptotal"][rng.gen_range(0..4)];
                        match class {
                            "snapbody" if 4 + hdr < data.len() => {
                                let pos = rng.gen_range(4 + hdr..data.len());
                                data[pos] ^= 1 << rng.gen_range(0..8);
                            }
                            "snapappend" => {
                                for _ in 0..rng.gen_range(1..40) {
                                    data.push(rng.r#gen());
                                }
                            }
                            "snaptotal" if 4 + hdr <= data.len() => {
                                // rewrite the (unauthenticated-by-position) size field of the header to a huge value
                                if let Ok(mut h) = postcard::from_bytes::<saorsa_core::persistent_state::SnapshotHeader>(&data[4..4 + hdr]) {
                                    h.total_size = [1u64 << 31, 1 << 27, u32::MAX as u64][rng.gen_range(0..3)];
                                    if let Ok(hb) = postcard::to_stdvec(&h) {
                                        let body = data[4 + hdr..].to_vec();
                                        data = (hb.len() as u32).to_le_bytes().to_vec();
                                        data.extend_from_slice(&hb);
                                        data.extend_from_slice(&body);
                                    }
                                }
                            }
                            _ => {
                                let pos = rng.gen_range(0..(4 + hdr).min(data.len()));
                                data[pos] ^= 1 << rng.gen_range(0..8);
                            }
                        }
                        let _ = std::fs::write(&s, &data);
                        ev = merge(ev, json!({"dclass":class,"dfile":0,"drec":0,"files":[]}));
                    } else {
                        let fi = loop {
                            let f = rng.gen_range(0..files.len());
                            if !layout[f].is_empty() { break f; }
                            if layout.iter().all(|l| l.is_empty()) { break usize::MAX; }
                        };
                        if fi == usize::MAX { continue; }
                        let target = work.join(files[fi].file_name().expect("name"));
                        let fr = frames(&target);
                        let ri = rng.gen_range(0..fr.len());
                        let (off, len, _, _) = fr[ri];
                        let mut data = std::fs::read(&target).unwrap_or_default();
                        let mut class = ["payload", "payload", "len", "lenbig", "trunc", "truncb", "append", "dup", "transplant", "multi", "lenmerge", "lenmerge", "shift", "shift"][rng.gen_range(0..14)];
                        if class == "lenmerge" && ri + 1 >= fr.len() {
                            class = "payload";
                        }
                        match class {
                            "payload" => {
                                let p = (off + 4 + rng.gen_range(0..len)) as usize;
                                data[p] ^= 1 << rng.gen_range(0..8);
                            }
                            "multi" => {
                                // several bytes of one record's payload
                                for _ in 0..rng.gen_range(2..6) {
                                    let p = (off + 4 + rng.gen_range(0..len)) as usize;
                                    data[p] = rng.r#gen();
                                }
                            }
                            "len" => {
                                let p = (off + rng.gen_range(0..4)) as usize;
                                data[p] ^= 1 << rng.gen_range(0..8);
                            }
                            "shift" => {
                                // a coherent multi-byte edit: the last byte of the key moves to the front of the value,
                                // every length prefix is adjusted, the integrity tag is left as it was
                                let body = data[(off + 4) as usize..(off + 4 + len) as usize].to_vec();
                                if let Ok(mut e) = postcard::from_bytes::<WalEntry>(&body)
                                    && let Some(v) = e.value.clone()
                                    && let Some(last) = e.key.pop()
                                {
                                    let mut nv = vec![last as u8];
                                    nv.extend_from_slice(&v);
                                    e.value = Some(nv);
                                    if let Ok(nb) = postcard::to_stdvec(&e) {
                                        let mut nd = data[..off as usize].to_vec();
                                        nd.extend_from_slice(&(nb.len() as u32).to_le_bytes());
                                        nd.extend_from_slice(&nb);
                                        nd.extend_from_slice(&data[(off + 4 + len) as usize..]);
                                        data = nd;
                                    }
                                } else {
                                    class = "payload";
                                    let p = (off + 4 + rng.gen_range(0..len)) as usize;
                                    data[p] ^= 1 << rng.gen_range(0..8);
                                }
                            }
                            "lenmerge" => {
                                // the length prefix of record ri now spans exactly records ri and ri+1: framing behind it is intact
                                let merged = (len + 4 + fr[ri + 1].1) as u32;
                                data[off as usize..off as usize + 4].copy_from_slice(&merged.to_le_bytes());
                            }
                            "lenbig" => {
                                let g: [u8; 4] = [[0xff, 0xff, 0xff, 0xff], [0xff, 0xff, 0xff, 0x7f], [0, 0, 0, 0x10]][rng.gen_range(0..3)];
                                data[off as usize..off as usize + 4].copy_from_slice(&g);
                            }
                            "trunc" => {
                                let cut = off + rng.gen_range(1..4 + len);
                                data.truncate(cut as usize);
                            }
                            "truncb" => {
                                data.truncate(off as usize);
                            }
                            "append" => {
                                let n = rng.gen_range(1..40);
                                for _ in 0..n { data.push(rng.r#gen()); }
                            }
                            "dup" => {
                                let rec = data[off as usize..(off + 4 + len) as usize].to_vec();
                                data.extend_from_slice(&rec);
                            }
                            _ => {
                                // a genuine record of another store (other integrity key), appended
                                let f = foreign_frames[rng.gen_range(0..foreign_frames.len())];
                                data.extend_from_slice(&foreign_bytes[f.0 as usize..(f.0 + 4 + f.1) as usize]);
                            }
                        }
                        let _ = std::fs::write(&target, &data);
                        ev = merge(ev, json!({"dclass":class,"dfile":fi + 1,"drec":ri + 1,
                                              "files": if describe { json!(layout) } else { json!([]) }, "described": describe}));
                    }
                    let r = reopen(&work, nk);
                    // recovering the same damaged directory a second time must not lose anything the first recovery kept
                    let r2 = reopen(&work, nk);
                    let ev = merge(ev, json!({"state2": r2.state, "ok2": r2.ok, "panic2": r2.panic}));
                    t.ev(merge(ev, obs(&r)));
                }
                let _ = std::fs::remove_dir_all(&img);
            }
        }
        drop(mgr);
    }
    saorsa_core::verif_hooks::set_crash_callback(None);
    let _ = std::fs::remove_dir_all(&tmp);
    let n = t.finish();
    eprintln!("c06 drive: {n} events");
    0
}
