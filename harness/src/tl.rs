//! Transport lifecycle driver (specification growth, DESIGN.md section 9 item 2): random sequences of
//! connect / accept / disconnect / remove / receive / send / time / maintenance on a real
//! TransportHandle over the in-memory hub. Before and after every operation the projected state
//! (tracked peers with status and last-seen second, active connections, virtual now) is logged with
//! the result and the events a subscriber received. Oracle: spec/Trace_Transport.tla.
use crate::common::{self, Args, Trace};
use crate::net::{self, Endpoint, Fake, FakeReply, Hub, now_secs};
use rand::Rng;
use saorsa_core::network::{ConnectionStatus, P2PEvent};
use saorsa_core::transport_handle::TransportHandle;
use serde_json::{Value, json};
use std::sync::Arc;
use std::time::Duration;

async fn project(t: &TransportHandle, names: &[String], start: tokio::time::Instant) -> Value {
    let now = start.elapsed().as_millis() as u64;
    let mut peers = Vec::new();
    for (i, p) in names.iter().enumerate() {
        if let Some(info) = t.peer_info(p).await {
            let st = match info.status {
                ConnectionStatus::Connected => "Connected",
                ConnectionStatus::Disconnected => "Disconnected",
                ConnectionStatus::Connecting => "Connecting",
                ConnectionStatus::Disconnecting => "Disconnecting",
                ConnectionStatus::Failed(_) => "Failed",
            };
            let seen = info.last_seen.duration_since(start).as_millis() as u64;
            peers.push(json!([i + 1, st, seen]));
        }
    }
    let conn = t.connected_peers().await;
    let mut active: Vec<usize> = names.iter().enumerate().filter(|(_, p)| conn.contains(p)).map(|(i, _)| i + 1).collect();
    active.sort();
    json!({"peers": peers, "active": active, "now": now})
}

pub fn drive(a: &Args) -> i32 {
    let out = a.str("out", "/dev/stdout");
    let segments = a.num("segments", 20);
    let ops = a.num("ops", 40);
    let mut t = Trace::create(&out);
    let mut rng = common::rng(21);
    for seg in 0..segments {
        let rt = net::paused_rt();
        let mut events: Vec<Value> = Vec::new();
        rt.block_on(async {
            let hub = Hub::new(common::rng(21_000 + seg), 0);
            let me = net::hex_id(&mut rng);
            let th = Arc::new(TransportHandle::verif_new_in_memory(me.clone(), me.clone(), net::addr_for(1), hub.clone() as Arc<dyn saorsa_core::transport_handle::VerifNet>, Duration::from_secs(2)));
            if th.start_network_listeners().await.is_err() {
                return;
            }
            hub.register(&me, &net::addr_for(1), Endpoint::Real(th.clone()));
            let np = rng.gen_range(1..=3usize);
            let names: Vec<String> = (0..np).map(|_| net::hex_id(&mut rng)).collect();
            for (i, p) in names.iter().enumerate() {
                hub.register(p, &net::addr_for(10 + i), Endpoint::Fake(Fake { lookup_reply: FakeReply::Silent, ack_put: false }));
            }
            let mut sub = th.subscribe_events();
            let start = tokio::time::Instant::now();
            events.push(json!({"ev":"Reset","npeers":np}));
            for _ in 0..ops {
                let pi = rng.gen_range(0..np);
                let p = names[pi].clone();
                let pre = project(&th, &names, start).await;
                let (op, d, ok): (&str, u64, bool) = match rng.gen_range(0..12) {
                    0 | 1 => ("connect", 0, th.connect_peer(&net::addr_for(10 + pi)).await.is_ok()),
                    2 => {
                        hub.link(&me, &p);
                        th.verif_accept(&p, net::addr_for(10 + pi).parse().expect("addr")).await;
                        ("accept", 0, true)
                    }
                    3 => ("disconnect", 0, th.disconnect_peer(&p).await.is_ok()),
                    4 => ("remove", 0, th.remove_peer(&p).await),
                    5 => {
                        let frame = saorsa_core::network::verif_encode_wire("/verif/x", vec![1, 2, 3], &p, now_secs());
                        let _ = th.verif_inject(&p, frame).await;
                        for _ in 0..100 {
                    tokio::task::yield_now().await;
                }
                        ("receive", 0, true)
                    }
                    6 => ("send", 0, th.send_message(&p, "/verif/x", vec![9]).await.is_ok()),
                    7 | 8 | 9 => {
                        let d = [1u64, 600, 1800, 3599, 3600, 3601, 3700, 7200, 7201, 9000][rng.gen_range(0..10)];
                        tokio::time::sleep(Duration::from_secs(d)).await;
                        ("advance", d * 1000, true)
                    }
                    _ => ("maintain", 0, th.maintenance_tick().await.is_ok()),
                };
                for _ in 0..100 {
                    tokio::task::yield_now().await;
                }
                let post = project(&th, &names, start).await;
                let mut evs = Vec::new();
                while let Ok(e) = sub.try_recv() {
                    match e {
                        P2PEvent::PeerConnected(x) => evs.push(json!(["Connected", names.iter().position(|n| *n == x).map(|i| i + 1).unwrap_or(0)])),
                        P2PEvent::PeerDisconnected(x) => evs.push(json!(["Disconnected", names.iter().position(|n| *n == x).map(|i| i + 1).unwrap_or(0)])),
                        P2PEvent::Message { .. } => {}
                    }
                }
                events.push(json!({"ev":"Step","op":op,"p":pi + 1,"d":d,"pre":pre,"post":post,"ok":ok,"events":evs}));
            }
            let _ = th.stop().await;
        });
        drop(rt);
        for e in events {
            t.ev(e);
        }
    }
    let n = t.finish();
    eprintln!("tl drive: {n} events");
    0
}
